"""Plain pytest entry: every replay file left by a violating run is re-executed
without the explorer (`./check <ID> --replay <file>`).  With no replay file
(the normal state on an unchanged tree) the test is skipped."""
import glob
import json
import os
import subprocess

import pytest

HERE = os.path.dirname(os.path.dirname(os.path.abspath(__file__)))
FILES = sorted(glob.glob(os.path.join(HERE, 'replays', '*.json')))
# histories that violated a property before a `fix:` commit in /repo: they
# must hold on the repaired tree (regression tests, no explorer involved)
FIXED = sorted(glob.glob(os.path.join(HERE, 'tests', 'fixed_replays',
                                      '*.json')))


@pytest.mark.skipif(not FILES, reason='no replay file')
@pytest.mark.parametrize('path', FILES or ['-'])
def test_replay(path):
    prop = json.load(open(path))['property']
    p = subprocess.run([os.path.join(HERE, 'check'), prop, '--replay', path],
                       stdout=subprocess.PIPE, stderr=subprocess.STDOUT,
                       universal_newlines=True)
    assert p.returncode == 0, p.stdout[-2000:]


@pytest.mark.parametrize('path', FIXED)
def test_fixed_defect_stays_fixed(path):
    prop = json.load(open(path))['property']
    p = subprocess.run([os.path.join(HERE, 'check'), prop, '--replay', path],
                       stdout=subprocess.PIPE, stderr=subprocess.STDOUT,
                       universal_newlines=True)
    assert p.returncode == 0, p.stdout[-2000:]
