"""ENUM engine: exhaustive bounded input enumeration of a real function
against an independent reference, partitioned deterministically over a pool
of processes."""
import collections
import multiprocessing as mp
import os
import sys
import traceback

REPO = os.environ.get('VERIF_REPO', '/repo')


def import_berte():
    if REPO not in sys.path:
        sys.path.insert(0, REPO)
    import warnings
    warnings.simplefilter('ignore')
    import logging
    logging.disable(logging.CRITICAL)
    import bert_e
    assert os.path.realpath(bert_e.__file__).startswith(
        os.path.realpath(REPO)), bert_e.__file__
    return bert_e


_AUTHOR_OPTS = {}


def author_options(author, own):
    """pr_author_options as the real settings loader builds it from a
    settings file that lists `author` (with the bypasses `own`) between two
    other authors who hold every bypass / none: options are per author."""
    key = (author, tuple(sorted(own)))
    if key not in _AUTHOR_OPTS:
        from bert_e.settings import PrAuthorsOptions
        f = PrAuthorsOptions()
        data = {'aaron-first': list(f.BYPASS_LIST), author: sorted(own),
                'zoe-last': []}
        _AUTHOR_OPTS[key] = f.deserialize(data)
    import copy
    return copy.deepcopy(_AUTHOR_OPTS[key])


class Part:
    """Result of one partition."""
    def __init__(self):
        self.evaluations = 0
        self.nontrivial = 0
        self.mismatches = []     # (fingerprint, msg, case)
        self.counters = collections.Counter()
        self.samples = []
        self.error = None

    def mismatch(self, fingerprint, msg, case, cap=50):
        self.counters['mismatches'] += 1
        if len(self.mismatches) < cap:
            self.mismatches.append((fingerprint, msg, case))


def _run_part(args):
    fn, part, nparts, extra = args
    p = Part()
    try:
        fn(p, part, nparts, *extra)
    except BaseException:
        p.error = traceback.format_exc()
    return p


def run_parts(fn, nparts, extra=(), workers=None):
    """fn(part_result, part_index, nparts, *extra) fills part_result."""
    workers = workers or min(16, os.cpu_count() or 4)
    ctx = mp.get_context('fork')
    with ctx.Pool(workers) as pool:
        parts = pool.map(_run_part, [(fn, i, nparts, extra)
                                     for i in range(nparts)], 1)
    tot = Part()
    for p in parts:
        tot.evaluations += p.evaluations
        tot.nontrivial += p.nontrivial
        tot.mismatches += p.mismatches
        tot.counters.update(p.counters)
        tot.samples += p.samples[:2]
        if p.error and not tot.error:
            tot.error = p.error
    return tot


def fill_result(cr, tot, rule, exhaustive=True, assumptions=(), extra=None,
                level_keys=None):
    cr.coverage = {
        'evaluations': tot.evaluations,
        'distinct_nontrivial': tot.nontrivial,
        'rule': rule, 'exhaustive': exhaustive,
        'samples': tot.samples[:6] or ['(none)'],
        'counters': dict(tot.counters),
    }
    if extra:
        cr.coverage.update(extra)
    cr.assumptions = list(assumptions)
    if tot.error:
        cr.harness_errors.append(tot.error[-2000:])
    seen = set()
    for fp, msg, case in tot.mismatches:
        if fp in seen:
            continue
        seen.add(fp)
        cr.add_violation(msg, fp, {'engine': 'enum', 'case': case})
    return cr
