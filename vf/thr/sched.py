"""THR engine: stateless, preemption-bounded exploration of real threads.

Real threading.Thread objects run real code; a baton (one semaphore per
controlled thread) lets exactly one of them run.  Scheduling points are the
`line` trace events inside a given set of code objects plus every acquire /
wait of cooperative locks and conditions (which replace the real ones on the
shared queue so that a blocked thread is *disabled*, not spinning).

Search: iterative preemption bounding (CHESS).  explore() replays a prefix of
choices, then always takes choice 0 (keep running the current thread if it is
enabled, else the enabled thread with the lowest id); alternatives are
explored while the number of preemptions stays within the bound.
"""
import sys
import threading


class Abort(BaseException):
    """Unwinds a controlled thread at the end of an execution."""


class Divergence(Exception):
    """Replaying a prefix met a different set of enabled threads."""


class CThread:
    def __init__(self, sched, tid, name, body, daemon_like=False):
        self.sched, self.id, self.name, self.body = sched, tid, name, body
        self.sem = threading.Semaphore(0)
        self.done = False
        self.blocked = None        # predicate -> True when runnable again
        self.waiting_on = None     # description, for deadlock reports
        self.daemon_like = daemon_like   # may stay blocked at quiescence
        self.error = None
        self.thread = threading.Thread(target=self._run, name=name)
        self.thread.daemon = True

    def enabled(self):
        if self.done:
            return False
        return self.blocked is None or self.blocked()

    def _run(self):
        self.sem.acquire()
        sched = self.sched
        sched.local.me = self
        try:
            if sched.abort:
                raise Abort()
            sys.settrace(sched.tracer)
            self.body()
        except Abort:
            pass
        except BaseException as e:   # the body is expected to catch its own
            self.error = e
        finally:
            sys.settrace(None)
            self.done = True
            if not sched.abort:
                try:
                    sched.switch_from(self, finished=True)
                except Abort:
                    pass


class Scheduler:
    def __init__(self, choices=(), codes=(), horizon=5000):
        self.choices = list(choices)
        self.codes = set(codes)
        self.horizon = horizon
        self.threads = []
        self.local = threading.local()
        self.trace = []     # (n_enabled, chosen, running_enabled)
        self.step = 0
        self.abort = False
        self.outcome = None   # 'quiescent' | 'deadlock' | 'livelock'
        self.finished_evt = threading.Event()
        self.pos = 0

    # -- setup ---------------------------------------------------------------
    def add(self, name, body, daemon_like=False):
        t = CThread(self, len(self.threads), name, body, daemon_like)
        self.threads.append(t)
        return t

    def me(self):
        return getattr(self.local, 'me', None)

    def tracer(self, frame, event, arg):
        if frame.f_code in self.codes:
            return self.line_tracer
        return None

    def line_tracer(self, frame, event, arg):
        if event == 'line':
            t = self.me()
            if t is not None:
                self.point(t)
        return self.line_tracer

    # -- the baton -------------------------------------------------------------
    def _choose(self, me):
        """Pick the next thread.  me: the thread giving up the baton (None at
        the very start)."""
        running_enabled = me is not None and me.enabled()
        enabled = [t for t in self.threads if t.enabled()]
        if running_enabled:
            enabled.remove(me)
            enabled.insert(0, me)
        if not enabled:
            return None
        if len(enabled) == 1:
            return enabled[0]     # not a choice point
        if self.pos < len(self.choices):
            c = self.choices[self.pos]
            if c >= len(enabled):
                raise Divergence('choice %d of %d at point %d' % (
                    c, len(enabled), self.pos))
        else:
            c = 0
        self.pos += 1
        self.trace.append((len(enabled), c, running_enabled))
        return enabled[c]

    def _end(self, outcome):
        self.outcome = outcome
        self.abort = True
        self.finished_evt.set()

    def switch_from(self, me, finished=False):
        """Called by the running thread at a scheduling point (or when it
        finished / blocked)."""
        self.step += 1
        if self.step > self.horizon:
            self._end('livelock')
            raise Abort()
        nxt = self._choose(me)
        if nxt is None:
            live = [t for t in self.threads if not t.done]
            if all(t.daemon_like for t in live):
                self._end('quiescent')
            else:
                self._end('deadlock')
            if finished:
                return
            raise Abort()
        if nxt is me:
            return
        nxt.sem.release()
        if finished:
            return
        me.sem.acquire()
        if self.abort:
            raise Abort()

    def point(self, me):
        if self.abort:
            raise Abort()
        self.switch_from(me)

    def block(self, me, predicate, what):
        """The running thread cannot continue until predicate() holds."""
        me.blocked, me.waiting_on = predicate, what
        try:
            while not predicate():
                self.switch_from(me)
        finally:
            me.blocked, me.waiting_on = None, None

    # -- one execution -----------------------------------------------------------
    def run(self, timeout=60):
        for t in self.threads:
            t.thread.start()
        first = self._choose(None)
        first.sem.release()
        if not self.finished_evt.wait(timeout):
            self.outcome = 'harness-timeout'
            self.abort = True
        # unwind everybody
        self.abort = True
        for t in self.threads:
            t.sem.release()
        for t in self.threads:
            t.thread.join(5)
        return self.outcome


class CoopLock:
    def __init__(self, sched, name='lock'):
        self.sched, self.name, self.owner = sched, name, None

    def acquire(self, blocking=True, timeout=-1):
        me = self.sched.me()
        if me is None:
            self.owner = 'uncontrolled'
            return True
        self.sched.point(me)
        if self.owner is not None:
            if not blocking:
                return False
            self.sched.block(me, lambda: self.owner is None,
                             'lock ' + self.name)
        self.owner = me
        return True

    def release(self):
        self.owner = None

    def locked(self):
        return self.owner is not None

    __enter__ = acquire

    def __exit__(self, *a):
        self.release()


class CoopCondition:
    def __init__(self, sched, lock, name='cond'):
        self.sched, self.lock, self.name = sched, lock, name
        self.waiters = []
        self.notified = set()

    def acquire(self, *a, **kw):
        return self.lock.acquire(*a, **kw)

    def release(self):
        self.lock.release()

    def __enter__(self):
        return self.lock.acquire()

    def __exit__(self, *a):
        self.lock.release()

    def wait(self, timeout=None):
        me = self.sched.me()
        token = object()
        self.waiters.append(token)
        self.lock.release()
        if me is None:
            raise RuntimeError('uncontrolled thread waits on ' + self.name)
        self.sched.block(me, lambda: token in self.notified,
                         'condition ' + self.name)
        self.notified.discard(token)
        if self.lock.owner is not None:
            self.sched.block(me, lambda: self.lock.owner is None,
                             'lock (after wait) ' + self.name)
        self.lock.owner = me
        return True

    def notify(self, n=1):
        for _ in range(n):
            if self.waiters:
                self.notified.add(self.waiters.pop(0))

    def notify_all(self):
        self.notify(len(self.waiters))


def install_on_queue(sched, q):
    """Replace the real lock / conditions of a queue.Queue instance."""
    q.mutex = CoopLock(sched, 'queue.mutex')
    q.not_empty = CoopCondition(sched, q.mutex, 'not_empty')
    q.not_full = CoopCondition(sched, q.mutex, 'not_full')
    q.all_tasks_done = CoopCondition(sched, q.mutex, 'all_tasks_done')


# ---------------------------------------------------------------------------
# search
# ---------------------------------------------------------------------------
def preemptions(trace, upto):
    """Number of preemptive choices among trace[:upto]."""
    return sum(1 for (n, c, running) in trace[:upto] if running and c != 0)


def explore(run_one, bound, prefixes=None, on_execution=None,
            max_executions=None):
    """run_one(choices) -> (trace, result).  Depth-first over alternatives,
    bounded by the number of preemptions.  prefixes: list of starting
    prefixes (for partitioning); default [[]].
    Returns the number of executions."""
    stack = [list(p) for p in (prefixes if prefixes is not None else [[]])]
    count = 0
    while stack:
        prefix = stack.pop()
        trace, result = run_one(prefix)
        count += 1
        if on_execution is not None:
            on_execution(prefix, trace, result)
        if max_executions and count >= max_executions:
            break
        taken = [c for (_, c, _) in trace]
        for i in range(len(prefix), len(trace)):
            n, c, running = trace[i]
            cost = preemptions(trace, i)
            for alt in range(1, n):
                extra = 1 if running else 0
                if cost + extra > bound:
                    continue
                stack.append(taken[:i] + [alt])
    return count
