"""CLI of every check:  ./check <ID> [--tier quick|thorough] [--replay FILE]

Exit status: 0 = property held on everything explored (KNOWN-FINDING lines
may be printed), 1 = violation (VIOLATION property=<id> replay=<path>),
2 = harness error (nondeterminism, crash of the machinery, cap hit).
"""
import argparse
import hashlib
import importlib
import json
import os
import sys
import time
import traceback

HERE = os.path.dirname(os.path.dirname(os.path.abspath(__file__)))
EVIDENCE_DIR = os.path.join(HERE, 'evidence')
REPLAY_DIR = os.path.join(HERE, 'replays')
KNOWN = os.path.join(HERE, 'known_findings.json')


class CheckResult:
    def __init__(self, prop, level):
        self.prop = prop
        self.level = level
        self.coverage = {}
        self.assumptions = []
        self.violations = []   # dicts: msg, fingerprint, replay (json-able)
        self.harness_errors = []
        self.notes = []

    def add_violation(self, msg, fingerprint, replay):
        self.violations.append({'msg': msg, 'fingerprint': fingerprint,
                                'replay': replay})


def load_known():
    if not os.path.exists(KNOWN):
        return []
    with open(KNOWN) as f:
        return json.load(f).get('findings', [])


def match_known(prop, fingerprint, known):
    for k in known:
        if k.get('property') == prop and k.get('status') == 'known' and \
                k.get('fingerprint') == fingerprint:
            return k
    return None


def write_replay(prop, v):
    os.makedirs(REPLAY_DIR, exist_ok=True)
    data = dict(v['replay'])
    data.update({'property': prop, 'msg': v['msg'],
                 'fingerprint': v['fingerprint']})
    blob = json.dumps(data, sort_keys=True, indent=1)
    h = hashlib.sha1(blob.encode()).hexdigest()[:10]
    path = os.path.join(REPLAY_DIR, '%s-%s.json' % (prop, h))
    with open(path, 'w') as f:
        f.write(blob + '\n')
    return path


def write_evidence(prop, tier, seed, res, wall, nviol):
    global EVIDENCE_DIR
    if os.path.realpath(os.environ.get('VERIF_REPO', '/repo')) != '/repo' \
            or os.environ.get('VERIF_ONLY_SPECS'):
        # a run against a scratch copy (mutant, seeded change) must not
        # replace the evidence of the runs against /repo
        EVIDENCE_DIR = os.path.join('/tmp', 'verif-evidence-scratch')
    os.makedirs(EVIDENCE_DIR, exist_ok=True)
    ev = {'property_id': prop, 'tier': tier, 'seed': seed,
          'level': res.level, 'coverage': res.coverage,
          'assumptions': res.assumptions, 'wall_s': round(wall, 2),
          'violations': nviol}
    if res.notes:
        ev['notes'] = res.notes
    path = os.path.join(EVIDENCE_DIR, prop + '.json')
    tmp = path + '.tmp'
    with open(tmp, 'w') as f:
        json.dump(ev, f, indent=1, sort_keys=True, default=str)
        f.write('\n')
    os.replace(tmp, path)
    try:
        import jsonschema
        with open('/root/.vp/EVIDENCE.schema.json') as f:
            schema = json.load(f)
        jsonschema.validate(ev, schema)
    except ImportError:
        pass
    except FileNotFoundError:
        pass
    return path


def main(argv=None):
    ap = argparse.ArgumentParser(prog='check')
    ap.add_argument('prop')
    ap.add_argument('--tier', default=os.environ.get('VERIF_TIER', 'quick'),
                    choices=['quick', 'thorough'])
    ap.add_argument('--replay')
    ap.add_argument('--workers', type=int, default=0)
    args = ap.parse_args(argv)
    try:
        seed = int(os.environ.get('VERIF_SEED', '0'))
    except ValueError:
        seed = 0
    prop = args.prop
    mod = importlib.import_module('vf.props.' + prop)
    if args.replay:
        with open(args.replay) as f:
            data = json.load(f)
        ok, text = mod.replay(data)
        print(text)
        if not ok:
            print('VIOLATION property=%s replay=%s' % (prop, args.replay))
            return 1
        print('replay: property held')
        return 0
    t0 = time.time()
    try:
        res = mod.run(args.tier, seed, workers=args.workers or None)
    except Exception:
        traceback.print_exc()
        print('HARNESS-ERROR property=%s (exception in the machinery)' % prop)
        return 2
    wall = time.time() - t0
    known = load_known()
    new, seen_known = [], {}
    for v in res.violations:
        k = match_known(prop, v['fingerprint'], known)
        if k is not None:
            seen_known.setdefault(v['fingerprint'], (k, v))
        else:
            new.append(v)
    res.coverage['known_findings_reobserved'] = sorted(seen_known)
    write_evidence(prop, args.tier, seed, res, wall, len(new))
    for fp, (k, v) in sorted(seen_known.items()):
        print('KNOWN-FINDING: property=%s %s [%s]' % (
            prop, k.get('what', v['msg']), fp))
    for n in res.notes:
        print('note: ' + n)
    cov = res.coverage
    print('%s %s: level=%s %s wall=%.1fs' % (
        prop, args.tier, res.level,
        ' '.join('%s=%s' % (k, cov[k]) for k in (
            'states', 'transitions', 'evaluations', 'distinct_nontrivial',
            'traces_validated_against_impl', 'exhaustive') if k in cov),
        wall))
    if res.harness_errors:
        for e in res.harness_errors[:5]:
            print('HARNESS-ERROR property=%s %s' % (prop, e))
        return 2
    if new:
        reported = set()
        for v in new:
            if v['fingerprint'] in reported:
                continue
            reported.add(v['fingerprint'])
            path = write_replay(prop, v)
            print('  ' + v['msg'])
            print('VIOLATION property=%s replay=%s' % (prop, path))
            if len(reported) >= 10:
                break
        return 1
    return 0


if __name__ == '__main__':
    sys.exit(main())
