"""SYS engine, part 3: explicit-state breadth-first search over the real
system, parallel over a pool of worker processes.

A *driver* (see drivers.py) supplies: the configuration, the events that build
the initial state, the enabled events of a state, the monitors, and optional
deviations (faults) to run on a transition.  The master only deduplicates by
canonical state key, so the visited set does not depend on pool scheduling.
"""
import atexit
import collections
import json
import multiprocessing as mp
import os
import shutil
import signal
import sys
import time
import traceback

from . import events as E
from .world import World

SHM = '/dev/shm'


def master_root():
    return os.path.join(SHM, 'verif.%d' % os.getpid())


def clean_stale():
    for name in os.listdir(SHM):
        if name.startswith('verif.'):
            pid = name.split('.')[1]
            if pid.isdigit() and not os.path.exists('/proc/' + pid):
                shutil.rmtree(os.path.join(SHM, name), ignore_errors=True)


# ---------------------------------------------------------------------------
# worker side
# ---------------------------------------------------------------------------
_W = {}   # per-process: config ident -> World


def get_world(root, config):
    ident = config.ident()
    w = _W.get(ident)
    if w is None:
        for old in list(_W.values()):
            old.close()
        _W.clear()
        import hashlib
        sub = hashlib.sha1(ident.encode()).hexdigest()[:10]
        w = World(os.path.join(root, 'w%d.%s' % (os.getpid(), sub)), config)
        w.init_layout()
        w.new_berte()
        _W[ident] = w
    else:
        # one world per process: re-point process-global env to it
        os.environ['HOME'] = w.home
        os.environ['TMPDIR'] = w.tmp
    return w


def build_initial(w, driver):
    w.init_layout()
    w.set_pending([])
    for ev in driver.init_events():
        if driver.config.get('clock'):
            from .world import set_clock
            set_clock(60 * (w.tick + 1))
        E.apply(w, ev)
        w.tick += 1


def step(w, driver, ev, pre=None):
    """Apply one event with the driver's monitors.  Returns a result dict."""
    if pre is None:
        pre = w.state()
    t0 = time.time()
    if driver.config.get('clock'):
        from .world import set_clock
        set_clock(60 * (w.tick + 1))
    obs = E.apply(w, ev)
    w.tick += 1
    post = w.state()
    viol, stats = [], collections.Counter()
    for mon in driver.monitors():
        try:
            v, s = mon(w, pre, ev, obs, post)
        except Exception:
            v, s = [{'property': 'HARNESS', 'msg': 'monitor crashed: ' +
                     traceback.format_exc()}], {}
        viol += v
        stats.update(s)
    return {'obs': obs, 'pre': pre, 'post': post, 'key': w.key_of(post),
            'violations': viol, 'stats': stats, 'dt': time.time() - t0}


def _worker_task(task):
    """task = (driver_spec, root, snapdir, key or None, event or None)."""
    spec, root, snapdir, key, ev = task
    try:
        from . import drivers
        driver = drivers.make(spec)
        w = get_world(root, driver.config)
        if key is None:
            build_initial(w, driver)
            post = w.state()
            k = w.key_of(post)
            w.snapshot(os.path.join(snapdir, k))
            return {'key': k, 'enabled': driver.enabled(w, post),
                    'violations': [], 'stats': {}, 'status': None,
                    'extra': None}
        snap = os.path.join(snapdir, key)
        w.restore(snap)
        res = step(w, driver, ev)
        k = res['key']
        new_snap = os.path.join(snapdir, k)
        if k != key and not os.path.exists(new_snap):
            w.snapshot(new_snap)
        enabled = driver.enabled(w, res['post']) if k != key else None
        extra = None
        if hasattr(driver, 'plan_deviations'):
            extra = driver.plan_deviations(w, snap, ev, res)
        obs = res['obs']
        return {'key': k, 'enabled': enabled,
                'violations': res['violations'], 'stats': dict(res['stats']),
                'status': obs.get('status'), 'ncmds': len(obs.get('cmds', [])),
                'extra': extra, 'dt': res['dt']}
    except BaseException:
        return {'error': traceback.format_exc(), 'task': [key, ev]}


def _worker_dev_task(task):
    """task = (driver_spec, root, snapdir, key, event, deviation, ctx)."""
    spec, root, snapdir, key, ev, dev, ctx = task
    try:
        from . import drivers
        driver = drivers.make(spec)
        w = get_world(root, driver.config)
        snap = os.path.join(snapdir, key)
        out = driver.run_deviation(w, snap, ev, dev, ctx)
        out.setdefault('violations', [])
        out.setdefault('stats', {})
        return out
    except BaseException:
        return {'error': traceback.format_exc(), 'task': [key, ev, dev]}


def _init_worker():
    signal.signal(signal.SIGINT, signal.SIG_IGN)


# ---------------------------------------------------------------------------
# master side
# ---------------------------------------------------------------------------
class Result:
    def __init__(self):
        self.states = 0
        self.transitions = 0
        self.depth = 0
        self.exhaustive = False
        self.stopped = None
        self.violations = []      # dicts with 'history'
        self.statuses = collections.Counter()
        self.stats = collections.Counter()
        self.parents = {}         # key -> (parent key, event)
        self.samples = []
        self.errors = []
        self.job_transitions = 0
        self.deviation_runs = 0
        self.status_into = {}     # key -> job status of its BFS-tree edge
        self.wall = 0.0
        self.init_key = None

    def history_of(self, key):
        h = []
        while True:
            p = self.parents.get(key)
            if p is None or p[0] is None:
                break
            h.append(p[1])
            key = p[0]
        return list(reversed(h))


def explore(driver_spec, workers=None, max_depth=None, time_cap=None,
            max_violations=20, progress=True):
    from . import drivers
    driver = drivers.make(driver_spec)
    max_depth = driver.max_depth if max_depth is None else max_depth
    workers = workers or min(16, os.cpu_count() or 4)
    clean_stale()
    root = master_root()
    snapdir = os.path.join(root, 'snap', driver.name)
    shutil.rmtree(snapdir, ignore_errors=True)
    os.makedirs(snapdir, exist_ok=True)
    atexit.register(shutil.rmtree, root, True)
    res = Result()
    t0 = time.time()
    ctx = mp.get_context('fork')
    pool = ctx.Pool(workers, initializer=_init_worker)
    try:
        r0 = pool.apply(_worker_task, ((driver_spec, root, snapdir, None,
                                        None),))
        if 'error' in r0:
            raise RuntimeError(r0['error'])
        res.init_key = r0['key']
        res.parents[r0['key']] = (None, None)
        enabled = {r0['key']: r0['enabled']}
        frontier = [r0['key']]
        depth = 0
        capped = False
        while frontier:
            if max_depth is not None and depth >= max_depth:
                res.stopped = 'depth bound %d' % max_depth
                break
            tasks = [(driver_spec, root, snapdir, k, ev)
                     for k in frontier for ev in enabled[k]]
            new_frontier = []
            dev_tasks = []
            n = 0
            for task, r in zip(tasks, pool.imap(_worker_task, tasks, 1)):
                n += 1
                if 'error' in r:
                    res.errors.append(r)
                    continue
                res.transitions += 1
                k = r['key']
                if r['status'] is not None:
                    res.job_transitions += 1
                    res.statuses[r['status'] or '(returned)'] += 1
                res.stats.update(r['stats'])
                for v in r['violations']:
                    if len(res.violations) < max_violations:
                        v = dict(v)
                        v['history'] = res.history_of(task[3]) + [task[4]]
                        res.violations.append(v)
                if r.get('extra'):
                    res.stats.update(r['extra'].get('stats', {}))
                    for dev in r['extra'].get('devs', []):
                        dev_tasks.append((driver_spec, root, snapdir, task[3],
                                          task[4], dev, r['extra']['ctx']))
                if k not in res.parents:
                    res.parents[k] = (task[3], task[4])
                    res.status_into[k] = r['status']
                    enabled[k] = r['enabled']
                    new_frontier.append(k)
                if time_cap and time.time() - t0 > time_cap:
                    capped = True
                    break
            if dev_tasks and not capped:
                for task, r in zip(dev_tasks, pool.imap(_worker_dev_task,
                                                        dev_tasks, 1)):
                    if 'error' in r:
                        res.errors.append(r)
                        continue
                    res.stats.update(r['stats'])
                    res.deviation_runs += 1
                    for v in r['violations']:
                        if len(res.violations) < max_violations:
                            v = dict(v)
                            v['history'] = res.history_of(task[3]) + [task[4]]
                            v['deviation'] = task[5]
                            res.violations.append(v)
                    if time_cap and time.time() - t0 > time_cap:
                        capped = True
                        break
            for k in frontier:
                shutil.rmtree(os.path.join(snapdir, k), ignore_errors=True)
                enabled.pop(k, None)
            if capped:
                res.stopped = 'time cap %ss hit inside depth %d' % (time_cap,
                                                                   depth + 1)
                break
            depth += 1
            frontier = new_frontier
            if progress:
                print('  [%s] depth %d: %d states, %d transitions, '
                      'frontier %d, %.0fs' % (
                          driver.name, depth, len(res.parents),
                          res.transitions, len(frontier), time.time() - t0),
                      file=sys.stderr, flush=True)
        else:
            res.exhaustive = True
        if not frontier:
            res.exhaustive = res.stopped is None
        res.depth = depth
    finally:
        pool.terminate()
        pool.join()
        shutil.rmtree(snapdir, ignore_errors=True)
    res.states = len(res.parents)
    res.wall = time.time() - t0
    return res


# ---------------------------------------------------------------------------
# replay without the explorer (single process, from scratch)
# ---------------------------------------------------------------------------
def replay(driver_spec, history, root=None, deviation=None):
    """Re-execute `history` from the initial state; returns the list of state
    keys (one per step, initial first), the job statuses, the violations."""
    from . import drivers
    driver = drivers.make(driver_spec)
    root = root or os.path.join(master_root(), 'replay')
    w = get_world(root, driver.config)
    build_initial(w, driver)
    keys = [w.key()]
    statuses, violations = [], []
    for i, ev in enumerate(history):
        last = i == len(history) - 1
        if last and deviation is not None:
            snap = os.path.join(root, 'replay-snap')
            shutil.rmtree(snap, ignore_errors=True)
            w.snapshot(snap)
            res = step(w, driver, ev)
            plan = driver.plan_deviations(w, snap, ev, res)
            if deviation in plan.get('devs', []):
                extra = driver.run_deviation(w, snap, ev, deviation,
                                             plan['ctx'])
                for v in extra.get('violations', []):
                    v['deviation'] = deviation
                res['violations'] += extra.get('violations', [])
            shutil.rmtree(snap, ignore_errors=True)
        else:
            res = step(w, driver, ev)
        keys.append(res['key'])
        statuses.append(res['obs'].get('status'))
        violations += res['violations']
    return {'keys': keys, 'statuses': statuses, 'violations': violations}


def _replay_main():
    """python -m vf.sysmc.explorer <json>: used for the fresh-process
    determinism cross-check."""
    req = json.loads(sys.argv[1])
    out = replay(req['driver'], req['history'])
    out['violations'] = [v.get('msg') for v in out['violations']]
    print('REPLAY-RESULT ' + json.dumps(out))
    shutil.rmtree(master_root(), ignore_errors=True)


if __name__ == '__main__':
    _replay_main()
