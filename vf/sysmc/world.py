"""SYS engine, part 1: the world.

A *world* is the real Bert-E (code of $VERIF_REPO, default /repo) wired to the
repository's own in-memory git host (bert_e/git_host/mock.py) and to a real
bare git repository on /dev/shm.  One world lives in one process; snapshots
(copy of the bare repository + pickled host tables) move states between
processes.

Nothing in here decides a property; it only builds, runs, observes, snapshots.
"""
import hashlib
import io
import json
import os
import pickle
import shutil
import subprocess
import sys
import tempfile

REPO = os.environ.get('VERIF_REPO', '/repo')
OWNER, SLUG = 'acme', 'repo'
ROBOT, ADMIN, AUTHOR, PEER1, PEER2 = 'robot', 'admin', 'alice', 'bob', 'carol'
ROBOT_PW = 'r0b0t-pw'
DATE0 = 1577836800  # 2020-01-01T00:00:00Z


def _import_berte():
    if REPO not in sys.path:
        sys.path.insert(0, REPO)
    import warnings
    warnings.simplefilter('ignore')
    import bert_e  # noqa
    assert os.path.realpath(bert_e.__file__).startswith(
        os.path.realpath(REPO)), bert_e.__file__


def pin_env():
    os.environ.update({
        'LC_ALL': 'C', 'TZ': 'UTC', 'GIT_CONFIG_NOSYSTEM': '1',
        'GIT_AUTHOR_DATE': '%d +0000' % DATE0,
        'GIT_COMMITTER_DATE': '%d +0000' % DATE0,
        'GIT_TERMINAL_PROMPT': '0',
    })
    for k in list(os.environ):
        if k.startswith('BERT_E_'):
            del os.environ[k]
    assert os.environ.get('PYTHONHASHSEED') == '0', \
        'run through ./check (PYTHONHASHSEED=0)'


def set_clock(tick):
    """Virtual commit clock: every commit made from now on is dated tick."""
    d = '%d +0000' % (DATE0 + tick)
    os.environ['GIT_AUTHOR_DATE'] = d
    os.environ['GIT_COMMITTER_DATE'] = d


def call_site():
    """Name of the Bert-E workflow/job function that issued the current git
    command (nearest frame in workflow/gitwaterflow or jobs)."""
    f = sys._getframe(2)
    while f is not None:
        fn = f.f_code.co_filename
        if ('/workflow/gitwaterflow/' in fn or '/bert_e/jobs/' in fn) and \
                f.f_code.co_name not in ('push',):
            return f.f_code.co_name
        f = f.f_back
    return '?'


class Crash(BaseException):
    """Crash-stop of Bert-E: not catchable by `except Exception`."""


# ---------------------------------------------------------------------------
# configuration of one exploration
# ---------------------------------------------------------------------------
class Config(dict):
    """Settings of the world.  Keys:
      layout: name in LAYOUTS
      queue: bool               (use the merge queue)
      skip_queue: bool          (skip_queue_when_not_needed)
      options: list of command-line options (bypass_*, no_octopus, ...)
      peers, leaders, need_author: review settings
      int_prs, int_branches: always_create_integration_{pull_requests,branches}
      build_key, admins, project_leaders, pr_author_options, send_bot_status
    """
    DEFAULTS = dict(layout='D2', queue=True, skip_queue=False, options=(),
                    peers=0, leaders=0, need_author=False, int_prs=True,
                    int_branches=True, build_key='pre-merge',
                    admins=(ADMIN,), project_leaders=(),
                    pr_author_options=None, send_bot_status=False,
                    max_commit_diff=0, jira=False, cred=False,
                    password=None, log_level=None, clock=False,
                    cred_flavour='github')

    def __init__(self, **kw):
        d = dict(self.DEFAULTS)
        d.update(kw)
        super().__init__(d)

    def __getattr__(self, k):
        try:
            return self[k]
        except KeyError:
            raise AttributeError(k)

    def ident(self):
        return json.dumps(self, sort_keys=True, default=list)


# layouts: list of (branch, parent branch or None, tags put on branch tip)
LAYOUTS = {
    'D1': dict(branches=[('development/4.3', None)], tags=[]),
    'D2': dict(branches=[('development/4.3', None),
                         ('development/5.1', 'development/4.3')], tags=[]),
    'D3': dict(branches=[('development/4.3', None),
                         ('development/5.1', 'development/4.3'),
                         ('development/10.0', 'development/5.1')], tags=[]),
    'S3': dict(branches=[('stabilization/4.3.18', None),
                         ('development/4.3', 'stabilization/4.3.18'),
                         ('development/5.1', 'development/4.3')],
               tags=[('4.3.17', 'ROOT')]),
    'M3': dict(branches=[('development/4.3', None),
                         ('development/4', 'development/4.3'),
                         ('development/5.1', 'development/4')], tags=[]),
    'H3': dict(branches=[('hotfix/4.2.17', None),
                         ('development/4.3', None),
                         ('development/5.1', 'development/4.3')],
               tags=[('4.2.17.0', 'ROOT')]),
    # two development branches on the same commit
    'E2': dict(branches=[('development/4.3', None),
                         ('development/5.1', '=development/4.3')], tags=[]),
    # development/5.2 freshly cut from development/5.1: its integration
    # branch is a fast-forward of the previous *integration* branch
    'F3': dict(branches=[('development/4.3', None),
                         ('development/5.1', 'development/4.3'),
                         ('development/5.2', '=development/5.1')], tags=[]),
    'E3': dict(branches=[('development/4.3', None),
                         ('development/5.1', '=development/4.3'),
                         ('development/10.0', '=development/4.3')], tags=[]),
    'SH3': dict(branches=[('hotfix/4.2.17', None),
                          ('stabilization/4.3.18', None),
                          ('development/4.3', 'stabilization/4.3.18'),
                          ('development/5.1', 'development/4.3')],
                tags=[('4.3.17', 'ROOT'), ('4.2.17.0', 'ROOT')]),
    'SS3': dict(branches=[('stabilization/4.3.18', None),
                          ('development/4.3', 'stabilization/4.3.18'),
                          ('stabilization/5.1.5', 'development/4.3'),
                          ('development/5.1', 'stabilization/5.1.5'),
                          ('development/10.0', 'development/5.1')],
                tags=[('4.3.17', 'ROOT'), ('5.1.4', 'ROOT')]),
    'S4': dict(branches=[('stabilization/4.3.18', None),
                         ('development/4.3', 'stabilization/4.3.18'),
                         ('development/4', 'development/4.3'),
                         ('development/5.1', 'development/4')],
               tags=[('4.3.17', 'ROOT')]),
}


def dest_sort_key(name):
    """Independent ordering of destination branches for the C01 chain:
    stabilization/x.y.z < development/x.y < ... < development/x < next major.
    Returns None for branches outside the chain (hotfix, anything else)."""
    kind, _, ver = name.partition('/')
    parts = ver.split('.')
    if not all(p.isdigit() for p in parts):
        return None
    nums = [int(p) for p in parts]
    if kind == 'development' and len(nums) == 2:
        return (nums[0], 0, nums[1], 1)
    if kind == 'development' and len(nums) == 1:
        return (nums[0], 1, 0, 1)
    if kind == 'stabilization' and len(nums) == 3:
        return (nums[0], 0, nums[1], 0)
    return None


class World:
    def __init__(self, root, config, log_level=None):
        """root: private directory of this process (under /dev/shm)."""
        pin_env()
        self.root = root
        self.config = config
        os.makedirs(root, exist_ok=True)
        self.home = os.path.join(root, 'home')
        self.tmp = os.path.join(root, 'tmp')
        for d in (self.home, self.tmp):
            os.makedirs(d, exist_ok=True)
        os.environ['HOME'] = self.home
        os.environ['TMPDIR'] = self.tmp
        tempfile.tempdir = self.tmp
        with open(os.path.join(self.home, '.gitconfig'), 'w') as f:
            f.write('[user]\n\tname = nobody\n\temail = nobody@example.com\n'
                    '[init]\n\tdefaultBranch = master\n'
                    '[advice]\n\tdetachedHead = false\n'
                    '[gc]\n\tauto = 0\n'
                    '[protocol "file"]\n\tallow = always\n')
        _import_berte()
        self.remote = os.path.join(root, 'remote', SLUG + '.git')
        self.password = config.password or ROBOT_PW
        self.cred_url = None
        self.log_records = None
        self._setup_logging(config.log_level)
        if config.cred:
            self.cred_url = self._real_git_url(config.cred_flavour)
            subprocess.run(['git', 'config', '--global',
                            'url.%s.insteadOf' % self.remote, self.cred_url],
                           check=True)
        self.berte = None
        self.tick = 0
        self._setup_host()
        self._wrap_host()
        self._patch()

    def _real_git_url(self, flavour):
        """The clone URL exactly as the real host client builds it (so that
        a change of its quoting is seen by the masking check)."""
        from types import SimpleNamespace
        if flavour == 'github':
            from bert_e.git_host import github
            repo = github.Repository(
                client=SimpleNamespace(login=ROBOT, password=self.password),
                _validate=False, name=SLUG, full_name='%s/%s' % (OWNER, SLUG),
                owner={'id': 1, 'login': OWNER})
            return repo.git_url
        from bert_e.git_host import bitbucket
        repo = bitbucket.Repository(
            SimpleNamespace(auth=SimpleNamespace(username=ROBOT,
                                                 password=self.password)),
            owner=OWNER, repo_slug=SLUG)
        return repo.git_url

    def _setup_logging(self, level):
        import logging
        root = logging.getLogger()
        for h in list(root.handlers):
            if getattr(h, '_verif', False):
                root.removeHandler(h)
        if level is None:
            logging.disable(logging.CRITICAL)
            return
        logging.disable(logging.NOTSET)
        world = self

        class Capture(logging.Handler):
            _verif = True

            def emit(self, record):
                if world.log_records is not None:
                    try:
                        world.log_records.append(self.format(record))
                    except Exception as e:   # formatting errors are data too
                        world.log_records.append('FORMAT-ERROR %r' % e)
        h = Capture()
        h.setFormatter(logging.Formatter(
            '%(levelname)s %(name)s: %(message)s'))
        root.addHandler(h)
        root.setLevel(getattr(logging, level))

    # -- host ---------------------------------------------------------------
    def _setup_host(self):
        from bert_e.git_host import mock
        from bert_e.lib.git import Repository as GitRepository
        self.mock = mock
        mock.PullRequest.items = []
        mock.Comment.items = []
        mock.Repository.items = []
        mock.Repository.revisions = {}
        g = GitRepository(None)
        g.delete()
        os.makedirs(self.remote, exist_ok=True)
        g.tmp_directory = g.cmd_directory = self.remote
        self.gitrepo = g
        mock.Repository.repos = {(OWNER, SLUG): g}
        self.clients = {}

    def client(self, user):
        if user not in self.clients:
            self.clients[user] = self.mock.Client(user, 'pw-' + user,
                                                  user + '@example.com')
        return self.clients[user]

    def host_repo(self, user):
        return self.client(user).get_repository(SLUG, OWNER)

    def _patch(self):
        """Virtual sleeps; command recorder on bert_e.lib.git.cmd."""
        import bert_e.lib.retry as retry
        import bert_e.lib.git as libgit
        import time as _time
        self.slept = []
        retry.sleep = lambda s: self.slept.append(s)

        class _T:
            def __getattr__(s, k):
                return getattr(_time, k)

            def sleep(s, secs):
                self.slept.append(secs)
        libgit.time = _T()
        self._fast_spawn()
        self._real_cmd = libgit.cmd.__wrapped__ if hasattr(
            libgit.cmd, '__wrapped__') else libgit.cmd
        self.cmd_log = None
        self.cmd_hook = None   # callable(index, command, kwargs) -> None/str
        self.mut_log = None    # remote-mutating operations of the current job
        self.mut_hook = None   # callable(index, kind, descr); may raise Crash

        def recording_cmd(command, **kwargs):
            log = self.cmd_log
            if log is None or kwargs.get('cwd') == self.remote:
                # not recording, or a command of the *mock host* (it uses
                # bert_e.lib.git on the bare repository to answer API calls)
                return self._real_cmd(command, **kwargs)
            idx = len(log)
            rec = {'i': idx, 'cmd': command}
            if command.startswith('git push'):
                rec['site'] = call_site()
            log.append(rec)
            if self.cmd_hook is not None:
                repl = self.cmd_hook(idx, command, kwargs, rec)
                if repl is not None:
                    command = repl
            is_push = command.startswith('git push')
            if is_push:
                self.mutating('push', command)
                rec['before'] = self.refs()
            try:
                out = self._real_cmd(command, **kwargs)
                rec['ok'] = True
                return out
            except BaseException as e:
                rec['ok'] = False
                rec['err'] = type(e).__name__
                raise
            finally:
                if is_push:
                    rec['after'] = self.refs()
        recording_cmd.__wrapped__ = self._real_cmd
        libgit.cmd = recording_cmd

    def _fast_spawn(self):
        """simplecmd starts every command with preexec_fn=os.setsid, which
        forces CPython to fork() the (large) worker process for each of the
        60-140 commands of a job.  start_new_session=True asks for the same
        setsid() in the child but lets CPython use vfork(): same child, about
        twice the throughput.  Off for the credential worlds (C16 exercises
        the timeout / process-group kill path) and with VERIF_FAST_SPAWN=0."""
        import bert_e.lib.simplecmd as sc
        if os.environ.get('VERIF_FAST_SPAWN', '1') != '1' or self.config.cred:
            if hasattr(sc.subprocess, '_verif_real'):
                sc.subprocess = sc.subprocess._verif_real
            return
        if hasattr(sc.subprocess, '_verif_real'):
            return
        real = sc.subprocess

        class FastPopen(real.Popen):
            def __init__(self_, *a, **kw):
                if kw.get('preexec_fn') is os.setsid:
                    kw.pop('preexec_fn')
                    kw['start_new_session'] = True
                super().__init__(*a, **kw)

        class Proxy:
            _verif_real = real
            Popen = FastPopen

            def __getattr__(self_, k):
                return getattr(real, k)
        sc.subprocess = Proxy()

    def mutating(self, kind, descr):
        """Called immediately before every remote-mutating operation of a
        job (git push, host comment / PR creation / decline / status)."""
        log = self.mut_log
        if log is None:
            return
        idx = len(log)
        log.append((kind, descr))
        if self.mut_hook is not None:
            self.mut_hook(idx, kind, descr)

    def _wrap_host(self):
        mock = self.mock
        if getattr(mock, '_verif_wrapped', False):
            mock._verif_world = self
            return
        mock._verif_wrapped = True
        mock._verif_world = self

        def wrap(cls, name, kind):
            orig = getattr(cls, name)

            def wrapper(self_, *a, **kw):
                mock._verif_world.mutating(kind, '%s %s' % (
                    name, (a[0] if a else '')[:40] if a and isinstance(
                        a[0], str) else ''))
                return orig(self_, *a, **kw)
            wrapper.__name__ = name
            setattr(cls, name, wrapper)
        orig_url = mock.Repository.git_url

        def git_url(self_):
            w = mock._verif_world
            if w is not None and w.cred_url:
                self_.get_git_url()
                return w.cred_url
            return orig_url.fget(self_)
        mock.Repository.git_url = property(git_url)
        wrap(mock.PullRequestController, 'add_comment', 'comment')
        wrap(mock.PullRequestController, 'decline', 'decline')
        wrap(mock.PullRequestController, 'set_bot_status', 'bot_status')
        wrap(mock.Repository, 'create_pull_request', 'create_pr')

    # -- git helpers on the bare remote ---------------------------------------
    def git(self, *args, env=None, check=True, input=None):
        e = dict(os.environ)
        if env:
            e.update(env)
        p = subprocess.run(('git',) + args, cwd=self.remote, env=e,
                           stdout=subprocess.PIPE, stderr=subprocess.PIPE,
                           input=input, universal_newlines=True)
        if check and p.returncode != 0:
            raise RuntimeError('git %s failed: %s' % (' '.join(args),
                                                      p.stderr))
        return p.stdout.strip() if check else p

    def refs(self):
        out = self.git('for-each-ref', '--format=%(refname) %(objectname)')
        d = {}
        for line in out.splitlines():
            name, sha = line.split()
            d[name.replace('refs/heads/', '', 1)
              if name.startswith('refs/heads/') else name] = sha
        return d

    def heads(self):
        return {k: v for k, v in self.refs().items()
                if not k.startswith('refs/')}

    def is_ancestor(self, a, b):
        return self.git('merge-base', '--is-ancestor', a, b,
                        check=False).returncode == 0

    def tree(self, rev):
        return self.git('rev-parse', rev + '^{tree}')

    def user_env(self, user):
        return {'GIT_AUTHOR_NAME': user, 'GIT_AUTHOR_EMAIL': user + '@x.org',
                'GIT_COMMITTER_NAME': user,
                'GIT_COMMITTER_EMAIL': user + '@x.org'}

    def commit_file(self, parent, path, content, msg, user=AUTHOR,
                    extra_parents=()):
        """Create a commit adding/replacing one file on top of `parent`
        (a sha or None) with plumbing; returns the sha."""
        idx = os.path.join(self.tmp, 'idx.%d' % os.getpid())
        if os.path.exists(idx):
            os.unlink(idx)
        env = dict(self.user_env(user), GIT_INDEX_FILE=idx)
        blob = self.git('hash-object', '-w', '--stdin', input=content)
        if parent:
            self.git('read-tree', parent, env=env)
        self.git('update-index', '--add', '--cacheinfo',
                 '100644,%s,%s' % (blob, path), env=env)
        tree = self.git('write-tree', env=env)
        args = ['commit-tree', tree, '-m', msg]
        if parent:
            args += ['-p', parent]
        for p in extra_parents:
            args += ['-p', p]
        sha = self.git(*args, env=env)
        os.unlink(idx)
        return sha

    def set_ref(self, branch, sha):
        self.git('update-ref', 'refs/heads/' + branch, sha)

    def del_ref(self, branch):
        self.git('update-ref', '-d', 'refs/heads/' + branch)

    # -- initial state --------------------------------------------------------
    def init_layout(self):
        set_clock(0)
        if os.path.isdir(self.remote):
            shutil.rmtree(self.remote)
        os.makedirs(self.remote)
        self.git('init', '--bare', '-q')
        lay = LAYOUTS[self.config.layout]
        root = self.commit_file(None, 'a', 'root\n', 'Initial commit', ADMIN)
        tips = {}
        for name, parent in lay['branches']:
            if parent and parent.startswith('='):
                tips[name] = tips[parent[1:]]
            else:
                base = tips[parent] if parent else root
                tips[name] = self.commit_file(
                    base, 'file_' + name.replace('/', '_'), name + '\n',
                    'create ' + name, ADMIN)
            self.set_ref(name, tips[name])
        for tag, where in lay['tags']:
            self.git('tag', tag, root if where == 'ROOT' else tips[where])
        self.mock.PullRequest.items = []
        self.mock.Comment.items = []
        self.mock.Repository.revisions = {}
        self.pending = []
        self.tick = 0

    # -- Bert-E ---------------------------------------------------------------
    def settings_text(self):
        c = self.config
        lines = [
            'repository_owner: %s' % OWNER, 'repository_slug: %s' % SLUG,
            'repository_host: mock', 'robot: %s' % ROBOT,
            'robot_email: robot@example.com',
            'always_create_integration_pull_requests: %s' % c.int_prs,
            'always_create_integration_branches: %s' % c.int_branches,
            'build_key: "%s"' % c.build_key,
            'need_author_approval: %s' % c.need_author,
            'required_leader_approvals: %d' % c.leaders,
            'required_peer_approvals: %d' % c.peers,
            'skip_queue_when_not_needed: %s' % c.skip_queue,
            'send_bot_status: %s' % c.send_bot_status,
            'max_commit_diff: %d' % c.max_commit_diff,
        ]
        if c.admins:
            lines.append('admins:')
            lines += ['  - %s' % a for a in c.admins]
        if c.project_leaders:
            lines.append('project_leaders:')
            lines += ['  - %s' % a for a in c.project_leaders]
        if c.pr_author_options:
            lines.append('pr_author_options:')
            for user, opts in sorted(c.pr_author_options.items()):
                lines.append('  %s:' % user)
                lines += ['    - %s' % o for o in opts]
        if c.jira:
            lines += ['jira_account_url: dummy', 'jira_email: d@x.org',
                      'jira_keys:', '  - TEST']
        return '\n'.join(lines) + '\n'

    def new_berte(self):
        """A fresh Bert-E instance (fresh object, same $HOME cache)."""
        from bert_e.settings import setup_settings
        from bert_e.bert_e import BertE
        path = os.path.join(self.root, 'settings.yml')
        with open(path, 'w') as f:
            f.write(self.settings_text())
        settings = setup_settings(path)
        settings.update({
            'robot_password': self.password, 'jira_token': 'jt',
            'disable_queues': not self.config.queue,
            'cmd_line_options': list(self.config.options),
            'backtrace': True, 'quiet': True, 'interactive': False,
            'no_comment': False,
        })
        if self.berte is not None:
            try:
                self.berte.git_repo.delete()
            except Exception:
                pass
        self.berte = BertE(settings)
        return self.berte

    def drop_cache(self):
        shutil.rmtree(os.path.join(self.home, '.bert-e'), ignore_errors=True)

    # -- snapshots ------------------------------------------------------------
    def _dump_host(self):
        world = self
        buf = io.BytesIO()

        class P(pickle.Pickler):
            def persistent_id(self, obj):
                if obj is world.gitrepo:
                    return 'GITREPO'
                return None
        P(buf, protocol=4).dump({
            'prs': self.mock.PullRequest.items,
            'comments': self.mock.Comment.items,
            'revisions': self.mock.Repository.revisions,
            'pending': self.pending_descr(),
            'tick': self.tick,
        })
        return buf.getvalue()

    def _load_host(self, data):
        world = self

        class U(pickle.Unpickler):
            def persistent_load(self, pid):
                assert pid == 'GITREPO'
                return world.gitrepo
        d = U(io.BytesIO(data)).load()
        self.mock.PullRequest.items = d['prs']
        self.mock.Comment.items = d['comments']
        self.mock.Repository.revisions = d['revisions']
        self.tick = d['tick']
        self.set_pending(d['pending'])

    def snapshot(self, path):
        """Write the current state to directory `path` (atomically)."""
        tmp = '%s.tmp.%d' % (path, os.getpid())
        if os.path.exists(tmp):
            shutil.rmtree(tmp)
        os.makedirs(tmp)
        shutil.copytree(self.remote, os.path.join(tmp, 'repo'), symlinks=True)
        with open(os.path.join(tmp, 'host.pkl'), 'wb') as f:
            f.write(self._dump_host())
        try:
            os.rename(tmp, path)
        except OSError:
            shutil.rmtree(tmp, ignore_errors=True)   # somebody else won

    def restore(self, path):
        shutil.rmtree(self.remote, ignore_errors=True)
        shutil.copytree(os.path.join(path, 'repo'), self.remote,
                        symlinks=True)
        with open(os.path.join(path, 'host.pkl'), 'rb') as f:
            self._load_host(f.read())

    # -- pending jobs ---------------------------------------------------------
    def pending_descr(self):
        if self.berte is None:
            return list(getattr(self, 'pending', []))
        out = []
        for job in list(self.berte.task_queue.queue):
            out.append(self.job_descr(job))
        return out

    @staticmethod
    def job_descr(job):
        t = type(job).__name__
        if t == 'PullRequestJob':
            return ('PullRequestJob', job.pull_request.id)
        if t == 'CommitJob':
            return ('CommitJob', job.commit)
        return (t, json.dumps(job.settings.maps[0], sort_keys=True,
                              default=str))

    def set_pending(self, descr):
        self.pending = list(descr)
        if self.berte is None:
            return
        q = self.berte.task_queue
        with q.mutex:
            q.queue.clear()
            q.unfinished_tasks = 0
        for d in descr:
            self.berte.put_job(self.make_job(d))

    def make_job(self, d):
        from bert_e.job import PullRequestJob, CommitJob
        b = self.berte
        if d[0] == 'PullRequestJob':
            return PullRequestJob(
                bert_e=b, pull_request=b.project_repo.get_pull_request(d[1]))
        if d[0] == 'CommitJob':
            return CommitJob(bert_e=b, commit=d[1])
        raise ValueError(d)

    # -- canonical state ------------------------------------------------------
    def host_state(self):
        prs = []
        for item in sorted(self.mock.PullRequest.items, key=lambda p: p.id):
            src_commit = item.source['commit']
            frozen = src_commit['hash'] if isinstance(src_commit, dict) \
                else None
            prs.append({
                'id': item.id, 'author': item.author['username'],
                'src': item.source['branch']['name'],
                'dst': item.destination['branch']['name'],
                'title': item.title, 'state': item.state,
                'description': item.description,
                'frozen': frozen,
                'participants': sorted(
                    (p['user']['username'], bool(p['approved']),
                     bool(p['changes_requested']))
                    for p in item.participants),
            })
        comments = [(c.pull_request_id, c.user['username'],
                     c.content['raw']) for c in self.mock.Comment.items]
        revisions = sorted((r, k, v) for (r, k), v in
                           self.mock.Repository.revisions.items())
        return {'prs': prs, 'comments': comments, 'revisions': revisions,
                'pending': [list(p) for p in self.pending_descr()]}

    def state(self):
        s = self.host_state()
        s['refs'] = self.refs()
        return s

    @staticmethod
    def key_of(state):
        blob = json.dumps(state, sort_keys=True).encode()
        return hashlib.sha256(blob).hexdigest()[:24]

    def key(self):
        return self.key_of(self.state())

    # -- convenience used by monitors ------------------------------------------
    def pr_items(self):
        return sorted(self.mock.PullRequest.items, key=lambda p: p.id)

    def pr_item(self, pr_id):
        for it in self.mock.PullRequest.items:
            if it.id == pr_id:
                return it
        return None

    def comments_of(self, pr_id):
        return [(c.user['username'], c.content['raw'])
                for c in self.mock.Comment.items
                if c.pull_request_id == pr_id]

    def status_of(self, sha, key=None):
        key = self.config.build_key if key is None else key
        return self.mock.Repository.revisions.get((sha, key), 'NOTSTARTED')

    def dest_branches(self):
        return [h for h in self.heads()
                if h.split('/')[0] in ('development', 'stabilization',
                                       'hotfix')]

    def close(self):
        if self.berte is not None:
            try:
                self.berte.git_repo.delete()
            except Exception:
                pass
