"""SYS engine, part 6: deviations inside a job (iterative deviation bounding,
bound 1): crash-stop at every boundary between remote-mutating operations,
rejection of every single ref of every push, one third-party action before
every push.  Each deviation re-runs the *same transition from the same
snapshot* on the real code."""
import os
import stat

from . import events as E
from .world import Crash, dest_sort_key, AUTHOR, ROBOT
from . import monitors as M


# ---------------------------------------------------------------------------
# ground truth helpers (harness knowledge, independent of Bert-E)
# ---------------------------------------------------------------------------
def targets_of(dst, dest_names):
    """Target list of a pull request on `dst`, from the statement of C09:
    the destination, then every development branch of greater or equal
    version; a hotfix destination alone."""
    if dst.startswith('hotfix/'):
        return [dst]
    k = dest_sort_key(dst)
    out = [dst]
    devs = sorted((dest_sort_key(n), n) for n in dest_names
                  if n.startswith('development/') and dest_sort_key(n))
    for kd, n in devs:
        if n == dst:
            continue
        if dst.startswith('stabilization/'):
            if kd[:3] >= k[:3]:
                out.append(n)
        elif kd > k:
            out.append(n)
    return out


def user_commits(w, tip):
    out = w.git('rev-list', '--author=' + AUTHOR, tip)
    return out.split()


def all_or_none(w, state):
    """For every parent pull request and each of its user commits: the set of
    targets containing it is empty or complete.  Returns list of messages."""
    hs = M.heads(state)
    dnames = list(M.dests(state))
    msgs = []
    for p in state['prs']:
        if p['author'] == ROBOT:
            continue
        tip = hs.get(p['src']) or p.get('frozen')
        if not tip:
            continue
        T = [t for t in targets_of(p['dst'], dnames) if t in hs]
        if len(T) < 2:
            continue
        for c in user_commits(w, tip):
            on = [t for t in T if w.is_ancestor(c, hs[t])]
            if on and len(on) != len(T):
                msgs.append('commit %s of pull request %d is on %s but not '
                            'on %s' % (c[:10], p['id'], on,
                                       [t for t in T if t not in on]))
                break
    return msgs


def dest_trees(w, state):
    return {b: w.tree(s) for b, s in M.dests(state).items()}


# ---------------------------------------------------------------------------
# reject hook
# ---------------------------------------------------------------------------
def install_reject(w, ref):
    hook = os.path.join(w.remote, 'hooks', 'update')
    os.makedirs(os.path.dirname(hook), exist_ok=True)
    with open(hook, 'w') as f:
        f.write('#!/bin/sh\nif [ "$1" = "refs/heads/%s" ]; then\n'
                '  echo "protected branch: $1" >&2; exit 1\nfi\nexit 0\n'
                % ref)
    os.chmod(hook, os.stat(hook).st_mode | stat.S_IXUSR | stat.S_IXGRP |
             stat.S_IXOTH)


def remove_reject(w):
    hook = os.path.join(w.remote, 'hooks', 'update')
    if os.path.exists(hook):
        os.unlink(hook)


# ---------------------------------------------------------------------------
# C02: crash points and rejected refs
# ---------------------------------------------------------------------------
def redeliver(w, ev, statuses):
    """Deliver the event once; documented queue reset if Bert-E reports the
    queues out of order (then deliver again)."""
    for _ in range(2):
        obs = E.apply(w, ev)
        statuses.append(obs.get('status'))
        if obs.get('status') in ('QueueOutOfOrder', 'IncoherentQueues'):
            o2 = E.apply(w, ['rebuild_queues'])
            statuses.append('rebuild:' + str(o2.get('status')))
            # process what the reset enqueued
            while w.pending_descr():
                o3 = E.apply(w, ['run_pending', 0])
                statuses.append('pending:' + str(o3.get('status')))
            continue
        break


def settle(w, ev, statuses, goal=None, rounds=3):
    """Re-deliver the event (at-least-once delivery) until the destination
    branches stop moving (or equal `goal`); returns the destination trees."""
    trees = dest_trees(w, w.state())
    for _ in range(rounds):
        if goal is not None and trees == goal:
            break
        redeliver(w, ev, statuses)
        new = dest_trees(w, w.state())
        if new == trees and goal is None:
            break
        stable = new == trees
        trees = new
        if stable:
            break
    return trees


def concretize(ev, pre):
    """The same event in a form that can be re-delivered later: commit
    events carry the sha, pending jobs become explicit evaluations."""
    if ev[0] == 'eval_commit':
        return ['eval_sha', pre['refs'][ev[1]]]
    if ev[0] == 'run_pending':
        d = pre['pending'][ev[1] if len(ev) > 1 else 0]
        if d[0] == 'PullRequestJob':
            return ['eval_pr', d[1]]
        if d[0] == 'CommitJob':
            return ['eval_sha', d[1]]
    return list(ev)


def c02_plan(driver, w, snap, ev, res):
    """Deviations of one transition: every crash boundary, every single ref
    of every push.  Also computes the reference outcome."""
    obs = res['obs']
    out = {'devs': [], 'ctx': {}, 'stats': {}}
    if not E.is_job(ev):
        return out
    mut = obs.get('mut_ops') or []
    if not mut:
        return out
    out['stats']['c02_mutating_transitions'] = 1
    devs = [['crash', i] for i in range(len(mut))]
    for rec in obs['cmds']:
        if rec['cmd'].startswith('git push') and 'before' in rec:
            b, a = rec['before'], rec.get('after', {})
            changed = sorted(r for r in set(b) | set(a)
                             if b.get(r) != a.get(r) and
                             not r.startswith('refs/'))
            for r in changed:
                if ['reject', r] not in devs:
                    devs.append(['reject', r])
    # reference: the uninterrupted run, the event being re-delivered (the
    # delivery is at-least-once) until the destinations no longer move
    ref_sts = []
    w.new_berte()
    w.set_pending(res['post']['pending'])
    cev = concretize(ev, res['pre'])
    ref_trees = settle(w, cev, ref_sts)
    w.new_berte()
    out['devs'] = devs
    out['ctx'] = {'ref_trees': ref_trees, 'ref_sts': ref_sts,
                  'pre_pending': res['pre']['pending'],
                  'pre_dests': M.dests(res['pre']), 'cev': cev,
                  'mut_ops': [list(m) for m in mut]}
    return out


def c02_run(driver, w, snap, ev, dev, ctx):
    out = {'violations': [], 'stats': {}}
    stats = out['stats']
    ref_trees = ctx['ref_trees']
    w.restore(snap)
    w.new_berte()          # nothing survives in the process
    w.set_pending(ctx['pre_pending'])
    if dev[0] == 'crash':
        n = dev[1]

        def hook(idx, kind, descr, n=n):
            if idx >= n:
                raise Crash()
        w.mut_hook = hook
    else:
        install_reject(w, dev[1])
    try:
        o = E.apply(w, ev)
    finally:
        w.mut_hook = None
        remove_reject(w)
    stats['c02_deviations'] = 1
    stats['c02_%s' % dev[0]] = 1
    mid = w.state()
    problems = []
    problems += all_or_none(w, mid)
    # C01 chain (inductive: only if it held before)
    if not M.chain_breaks(w, ctx['pre_dests']):
        br = M.chain_breaks(w, M.dests(mid))
        if br:
            problems.append('inclusion chain broken: %s' % br)
    if problems:
        out['violations'].append({
            'property': 'C02',
            'msg': 'after %s during %s (job status %s): %s' % (
                dev, ev, o.get('status'), '; '.join(problems))})
        w.new_berte()
        return out
    # recovery
    sts = []
    w.new_berte()
    w.set_pending([])
    redeliver(w, ctx['cev'], sts)
    got = settle(w, ctx['cev'], sts, goal=ref_trees)
    diff = [b for b in ref_trees if b in got and got[b] != ref_trees[b]]
    missing = [b for b in ref_trees if b not in got]
    if diff or missing:
        out['violations'].append({
            'property': 'C02',
            'msg': 'after %s during %s, re-delivery to a fresh Bert-E '
                   '(%s) ends with different content on %s (missing %s) '
                   'than the uninterrupted run (%s)' % (
                       dev, ev, sts, diff, missing, ctx['ref_sts'])})
    elif got != dest_trees_of_refs(w, ctx['pre_dests']):
        stats['c02_recovered_merges'] = 1
    w.new_berte()
    return out


def dest_trees_of_refs(w, dests):
    return {b: w.tree(s) for b, s in dests.items()}
