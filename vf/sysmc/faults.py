"""SYS engine, part 6: deviations inside a job (iterative deviation bounding,
bound 1): crash-stop at every boundary between remote-mutating operations,
rejection of every single ref of every push, one third-party action before
every push.  Each deviation re-runs the *same transition from the same
snapshot* on the real code."""
import os
import stat
import subprocess

from . import events as E
from .world import Crash, dest_sort_key, AUTHOR, ROBOT
from . import monitors as M


# ---------------------------------------------------------------------------
# ground truth helpers (harness knowledge, independent of Bert-E)
# ---------------------------------------------------------------------------
def targets_of(dst, dest_names):
    """Target list of a pull request on `dst`, from the statement of C09:
    the destination, then every development branch of greater or equal
    version; a hotfix destination alone."""
    if dst.startswith('hotfix/'):
        return [dst]
    k = dest_sort_key(dst)
    out = [dst]
    devs = sorted((dest_sort_key(n), n) for n in dest_names
                  if n.startswith('development/') and dest_sort_key(n))
    for kd, n in devs:
        if n == dst:
            continue
        if dst.startswith('stabilization/'):
            if kd[:3] >= k[:3]:
                out.append(n)
        elif kd > k:
            out.append(n)
    return out


def user_commits(w, tip):
    out = w.git('rev-list', '--author=' + AUTHOR, tip)
    return out.split()


def all_or_none(w, state):
    """For every parent pull request and each of its user commits: the set of
    targets containing it is empty or complete.  Returns list of messages."""
    hs = M.heads(state)
    dnames = list(M.dests(state))
    msgs = []
    for p in state['prs']:
        if p['author'] == ROBOT:
            continue
        tip = hs.get(p['src']) or p.get('frozen')
        if not tip:
            continue
        T = [t for t in targets_of(p['dst'], dnames) if t in hs]
        if len(T) < 2:
            continue
        for c in user_commits(w, tip):
            on = [t for t in T if w.is_ancestor(c, hs[t])]
            if on and len(on) != len(T):
                msgs.append('commit %s of pull request %d is on %s but not '
                            'on %s' % (c[:10], p['id'], on,
                                       [t for t in T if t not in on]))
                break
    return msgs


def dest_trees(w, state):
    return {b: w.tree(s) for b, s in M.dests(state).items()}


# ---------------------------------------------------------------------------
# reject hook
# ---------------------------------------------------------------------------
def install_reject(w, ref):
    hook = os.path.join(w.remote, 'hooks', 'update')
    os.makedirs(os.path.dirname(hook), exist_ok=True)
    with open(hook, 'w') as f:
        f.write('#!/bin/sh\nif [ "$1" = "refs/heads/%s" ]; then\n'
                '  echo "protected branch: $1" >&2; exit 1\nfi\nexit 0\n'
                % ref)
    os.chmod(hook, os.stat(hook).st_mode | stat.S_IXUSR | stat.S_IXGRP |
             stat.S_IXOTH)


def remove_reject(w):
    hook = os.path.join(w.remote, 'hooks', 'update')
    if os.path.exists(hook):
        os.unlink(hook)


# ---------------------------------------------------------------------------
# C02: crash points and rejected refs
# ---------------------------------------------------------------------------
def redeliver(w, ev, statuses):
    """Deliver the event once; documented queue reset if Bert-E reports the
    queues out of order (then deliver again)."""
    for _ in range(2):
        obs = E.apply(w, ev)
        statuses.append(obs.get('status'))
        if obs.get('status') in ('QueueOutOfOrder', 'IncoherentQueues'):
            o2 = E.apply(w, ['rebuild_queues'])
            statuses.append('rebuild:' + str(o2.get('status')))
            # process what the reset enqueued
            while w.pending_descr():
                o3 = E.apply(w, ['run_pending', 0])
                statuses.append('pending:' + str(o3.get('status')))
            continue
        break


def settle(w, ev, statuses, goal=None, rounds=3):
    """Re-deliver the event (at-least-once delivery) until the destination
    branches stop moving (or equal `goal`); returns the destination trees."""
    trees = dest_trees(w, w.state())
    for _ in range(rounds):
        if goal is not None and trees == goal:
            break
        redeliver(w, ev, statuses)
        new = dest_trees(w, w.state())
        if new == trees and goal is None:
            break
        stable = new == trees
        trees = new
        if stable:
            break
    return trees


def concretize(ev, pre):
    """The same event in a form that can be re-delivered later: commit
    events carry the sha, pending jobs become explicit evaluations."""
    if ev[0] == 'eval_commit':
        return ['eval_sha', pre['refs'][ev[1]]]
    if ev[0] == 'run_pending':
        d = pre['pending'][ev[1] if len(ev) > 1 else 0]
        if d[0] == 'PullRequestJob':
            return ['eval_pr', d[1]]
        if d[0] == 'CommitJob':
            return ['eval_sha', d[1]]
    return list(ev)


NET_CMD = ('git clone', 'git fetch', 'git push', 'git pull',
           'git remote update', 'git ls-remote')


def net_commands(obs):
    """Indices of the commands of a job that talk to the remote."""
    return [i for i, rec in enumerate(obs.get('cmds', []))
            if rec['cmd'].startswith(NET_CMD)]


def is_octopus(command):
    """git merge of two branches at once (Branch.merge quotes each name)."""
    return command.startswith('git merge ') and command.count("'") >= 4


def netfail_hook(target, hit):
    def hook(idx, command, kwargs, rec):
        if idx != target:
            return None
        hit['cmd'] = command
        return 'false # ' + command.replace('\n', ' ')
    return hook


def c02_plan(driver, w, snap, ev, res):
    """Deviations of one transition: every crash boundary, every single ref
    of every push.  Also computes the reference outcome."""
    obs = res['obs']
    out = {'devs': [], 'ctx': {}, 'stats': {}}
    if not E.is_job(ev):
        return out
    mut = obs.get('mut_ops') or []
    if not mut:
        return out
    out['stats']['c02_mutating_transitions'] = 1
    devs = [['crash', i] for i in range(len(mut))]
    for rec in obs['cmds']:
        if rec['cmd'].startswith('git push') and 'before' in rec:
            b, a = rec['before'], rec.get('after', {})
            changed = sorted(r for r in set(b) | set(a)
                             if b.get(r) != a.get(r) and
                             not r.startswith('refs/'))
            for r in changed:
                if ['reject', r] not in devs:
                    devs.append(['reject', r])
    if driver.spec.get('netfail', True):
        # environment answer: one command that talks to the remote fails
        devs += [['netfail', i] for i in net_commands(obs)]
        # ... or one call to the git host API fails (HTTP 503), once
        devs += [['apifail', i] for i, m in enumerate(mut)
                 if m[0] != 'push']
        # ... or git's octopus strategy gives up (both orders): Bert-E must
        # fall back to consecutive merges with the same result
        if any(is_octopus(rec['cmd']) for rec in obs['cmds']):
            devs.append(['octofail', 0])
    # reference: the uninterrupted run, the event being re-delivered (the
    # delivery is at-least-once) until the destinations no longer move
    ref_sts = []
    w.new_berte()
    w.set_pending(res['post']['pending'])
    cev = concretize(ev, res['pre'])
    ref_trees = settle(w, cev, ref_sts)
    w.new_berte()
    out['devs'] = devs
    out['ctx'] = {'ref_trees': ref_trees, 'ref_sts': ref_sts,
                  'pre_pending': res['pre']['pending'],
                  'pre_dests': M.dests(res['pre']), 'cev': cev,
                  'mut_ops': [list(m) for m in mut]}
    return out


def c02_run(driver, w, snap, ev, dev, ctx):
    out = {'violations': [], 'stats': {}}
    stats = out['stats']
    ref_trees = ctx['ref_trees']
    w.restore(snap)
    w.new_berte()          # nothing survives in the process
    w.set_pending(ctx['pre_pending'])
    if dev[0] == 'crash':
        n = dev[1]

        def hook(idx, kind, descr, n=n):
            if idx >= n:
                raise Crash()
        w.mut_hook = hook
    elif dev[0] == 'netfail':
        w.cmd_hook = netfail_hook(dev[1], {})
    elif dev[0] == 'octofail':
        def ohook(idx, command, kwargs, rec):
            if is_octopus(command):
                return 'false # ' + command.replace('\n', ' ')
            return None
        w.cmd_hook = ohook
    elif dev[0] == 'apifail':
        n = dev[1]

        def hook(idx, kind, descr, n=n):
            if idx == n and kind != 'push':
                import requests
                raise requests.exceptions.HTTPError(
                    '503 Server Error: Service Unavailable (%s)' % descr)
        w.mut_hook = hook
    else:
        install_reject(w, dev[1])
    try:
        o = E.apply(w, ev)
    finally:
        w.mut_hook = None
        w.cmd_hook = None
        remove_reject(w)
    stats['c02_deviations'] = 1
    stats['c02_%s' % dev[0]] = 1
    mid = w.state()
    problems = []
    problems += all_or_none(w, mid)
    # C01 chain (inductive: only if it held before)
    if not M.chain_breaks(w, ctx['pre_dests']):
        br = M.chain_breaks(w, M.dests(mid))
        if br:
            problems.append('inclusion chain broken: %s' % br)
    if problems:
        out['violations'].append({
            'property': 'C02',
            'msg': 'after %s during %s (job status %s): %s' % (
                dev, ev, o.get('status'), '; '.join(problems))})
        w.new_berte()
        return out
    # recovery
    sts = []
    w.new_berte()
    w.set_pending([])
    redeliver(w, ctx['cev'], sts)
    got = settle(w, ctx['cev'], sts, goal=ref_trees)
    diff = [b for b in ref_trees if b in got and got[b] != ref_trees[b]]
    missing = [b for b in ref_trees if b not in got]
    if diff or missing:
        out['violations'].append({
            'property': 'C02',
            'msg': 'after %s during %s, re-delivery to a fresh Bert-E '
                   '(%s) ends with different content on %s (missing %s) '
                   'than the uninterrupted run (%s)' % (
                       dev, ev, sts, diff, missing, ctx['ref_sts'])})
    elif got != dest_trees_of_refs(w, ctx['pre_dests']):
        stats['c02_recovered_merges'] = 1
    w.new_berte()
    return out


def dest_trees_of_refs(w, dests):
    return {b: w.tree(s) for b, s in dests.items()}


# ---------------------------------------------------------------------------
# C08: one third-party action immediately before each push of a job
# ---------------------------------------------------------------------------
FOREIGN = 'feature/foreign-work'
NEW_DEST = 'development/99.0'


def c08_plan(driver, w, snap, ev, res):
    obs = res['obs']
    out = {'devs': [], 'ctx': {}, 'stats': {}}
    if not E.is_job(ev):
        return out
    pushes = [c for c in obs.get('cmds', [])
              if c['cmd'].startswith('git push')]
    if not pushes:
        return out
    out['stats']['c08_pushing_transitions'] = 1
    hs = M.heads(res['pre'])
    srcs = sorted(p['src'] for p in res['pre']['prs']
                  if p['author'] != ROBOT and p['src'] in hs)
    devs = []
    for j in range(len(pushes)):
        devs.append(['new_branch', j])
        for s in srcs:
            devs.append(['ff_push', j, s])
            devs.append(['rewind', j, s])
    # environment fault: a destination branch was created since the last
    # refresh of the clone cache and the refresh fails in this job
    devs.append(['stale_cache', 0])
    # ... or any one command that talks to the remote fails
    devs += [['netfail', i] for i in net_commands(obs)]
    out['devs'] = devs
    out['ctx'] = {'pre_pending': res['pre']['pending'],
                  'cev': concretize(ev, res['pre'])}
    return out


def c08_run(driver, w, snap, ev, dev, ctx):
    out = {'violations': [], 'stats': {'c08_deviations': 1,
                                       'c08_' + dev[0]: 1}}
    w.restore(snap)
    w.set_pending(ctx['pre_pending'])
    pre = w.state()
    left = {}
    counter = {'n': 0}
    if dev[0] == 'stale_cache':
        # deterministic cache = mirror of the pre-state, then the new branch
        w.drop_cache()
        top = os.path.join(w.home, '.bert-e')
        os.makedirs(top, exist_ok=True)
        url = w.berte.git_repo._url
        slug = url.split('/')[-1].replace('.git', '')
        subprocess.run(['git', 'clone', '-q', '--mirror', url,
                        os.path.join(top, slug + '.git')], check=True,
                       stdout=subprocess.DEVNULL, stderr=subprocess.DEVNULL)
        base = sorted(M.dests(pre).items())[-1][1]
        w.set_ref(NEW_DEST, base)
        left[NEW_DEST] = base

    nethit = {}
    nethook = netfail_hook(dev[1], nethit)

    def hook(idx, command, kwargs, rec):
        if dev[0] == 'netfail':
            return nethook(idx, command, kwargs, rec)
        if dev[0] == 'stale_cache':
            if command.startswith('git fetch --prune') and \
                    '.bert-e' in str(kwargs.get('cwd', '')):
                counter['n'] += 1
                return 'false # ' + command
            return None
        if not command.startswith('git push'):
            return None
        j = counter['n']
        counter['n'] += 1
        if j != dev[1]:
            return None
        refs = w.refs()
        if dev[0] == 'new_branch':
            base = sorted(M.dests(pre).values())[0]
            sha = w.commit_file(base, 'foreign_file', 'foreign\n',
                                'third-party work', 'mallory')
            w.set_ref(FOREIGN, sha)
            left[FOREIGN] = sha
        elif dev[0] == 'ff_push':
            tip = refs.get(dev[2])
            if tip:
                sha = w.commit_file(tip, 'late_file', 'late\n',
                                    'late commit on ' + dev[2], AUTHOR)
                w.set_ref(dev[2], sha)
                left[dev[2]] = sha
        elif dev[0] == 'rewind':
            tip = refs.get(dev[2])
            if tip:
                sha = w.git('rev-parse', tip + '^')
                w.set_ref(dev[2], sha)
                left[dev[2]] = sha
        return None
    w.cmd_hook = hook
    try:
        o = E.apply(w, ctx['cev'])
    finally:
        w.cmd_hook = None
    post = w.state()
    if dev[0] == 'stale_cache':
        w.drop_cache()
        if not counter['n']:
            left = {}
    if not left and not nethit:
        out['stats']['c08_action_not_placed'] = 1
        return out
    for fp, msg in M.c08_judge(w, pre, ev, o, post, left=left or None):
        out['violations'].append({
            'property': 'C08', 'fingerprint': fp + ':' + dev[0],
            'msg': '%s: %s (job status %s)' % (
                'command #%d failed (%s)' % (dev[1], nethit.get('cmd', '')[:50])
                if dev[0] == 'netfail' else
                'third party %s before push #%d' % (
                    dev[0] + (' ' + dev[2] if len(dev) > 2 else ''), dev[1]),
                msg, o.get('status'))})
    return out


# ---------------------------------------------------------------------------
# C10: repeat the same evaluation
# ---------------------------------------------------------------------------
COMMAND_STATUSES = ('HelpMessage', 'StatusReport', 'CommandNotImplemented',
                    'ResetComplete', 'LossyResetWarning')
COMMAND_WORDS = ('help', 'status', 'build', 'retry', 'clear', 'reset',
                 'force_reset')


def observable(state):
    return (state['refs'], state['prs'], state['comments'],
            state['pending'])


def adjacent_duplicates(state):
    out = []
    by_pr = {}
    for cid, user, text in state['comments']:
        by_pr.setdefault(cid, []).append((user, text))
    for cid, lst in by_pr.items():
        for (u1, t1), (u2, t2) in zip(lst, lst[1:]):
            if u1 == ROBOT and u2 == ROBOT and t1 == t2:
                out.append((cid, t1.strip().splitlines()[0][:60]))
    return out


def command_comments(state, pr_id):
    n = 0
    for cid, user, text in state['comments']:
        if cid == pr_id and user != ROBOT:
            t = text.strip()
            words = t.replace('@robot', ' ').replace('/', ' ').replace(
                ':', ' ').split()
            if (t.startswith('@robot') or t.startswith('/')) and words and \
                    words[0] in COMMAND_WORDS:
                n += 1
    return n


def c10_plan(driver, w, snap, ev, res):
    out = {'devs': [], 'ctx': {}, 'stats': {}}
    if not E.is_job(ev) or ev[0] in ('create_branch', 'delete_branch'):
        return out
    out['devs'] = [['repeat', 3], ['pollute'], ['stale']]
    out['ctx'] = {'pre_pending': res['pre']['pending'],
                  'cev': concretize(ev, res['pre']),
                  'post_key': res['key'],
                  'status': res['obs'].get('status')}
    return out


POLLUTION = [
    '@robot bypass_author_approval bypass_peer_approval '
    'bypass_leader_approval bypass_build_status bypass_jira_check '
    'bypass_incompatible_branch',
    '@robot after_pull_request=1 after_pull_request=2 create_pull_requests '
    'create_integration_branches no_octopus unanimity approve',
]


def c10_pollute(driver, w, snap, ev, ctx):
    """The same evaluation, on the same state, after the long-lived instance
    processed a job of an unrelated pull request that switches every option
    on: the outcome must not change."""
    from .world import ADMIN
    out = {'violations': [], 'stats': {'c10_pollution_runs': 1}}
    w.restore(snap)
    w.set_pending([])
    dev = sorted(b for b in w.heads() if b.startswith('development/'))[0]
    E.apply(w, ['open', 'bugfix/POLLUTE-9', dev])
    pid = max(p.id for p in w.pr_items())
    E.apply(w, ['comment', pid, ADMIN, POLLUTION[0]])
    E.apply(w, ['comment', pid, AUTHOR, POLLUTION[1]])
    o0 = E.apply(w, ['eval_pr', pid])
    out['stats']['c10_pollution_' + str(o0.get('status'))] = 1
    w.restore(snap)
    w.set_pending(ctx['pre_pending'])
    o = E.apply(w, ctx['cev'])
    key = w.key()
    if key != ctx['post_key'] or o.get('status') != ctx['status']:
        out['violations'].append({
            'property': 'C10', 'fingerprint': 'depends-on-earlier-jobs',
            'msg': 'the outcome of %s depends on what the instance processed '
                   'before: after a job on an unrelated pull request with '
                   'options %s it ends %s (state %s), otherwise %s (state '
                   '%s)' % (ctx['cev'], POLLUTION, o.get('status'), key,
                            ctx['status'], ctx['post_key'])})
    return out


def c10_stale(driver, w, snap, ev, ctx):
    """The same evaluation, on the same state, after the long-lived instance
    processed - in the *initial* repository state - a job that ends before
    cloning (a build report on an unknown commit): nothing that job learnt
    about the repository may survive into the next one."""
    from .explorer import build_initial
    out = {'violations': [], 'stats': {'c10_stale_runs': 1}}
    build_initial(w, driver)
    o0 = E.apply(w, ['eval_sha', '0' * 40])
    out['stats']['c10_stale_' + str(o0.get('status'))] = 1
    w.restore(snap)
    w.set_pending(ctx['pre_pending'])
    o = E.apply(w, ctx['cev'])
    key = w.key()
    if key != ctx['post_key'] or o.get('status') != ctx['status']:
        out['violations'].append({
            'property': 'C10', 'fingerprint': 'depends-on-earlier-jobs',
            'msg': 'the outcome of %s depends on what the instance processed '
                   'before: after a build report on an unknown commit '
                   'processed in the initial repository state it ends %s '
                   '(state %s), otherwise %s (state %s)' % (
                       ctx['cev'], o.get('status'), key, ctx['status'],
                       ctx['post_key'])})
    return out


def c10_run(driver, w, snap, ev, dev, ctx):
    if dev[0] == 'pollute':
        return c10_pollute(driver, w, snap, ev, ctx)
    if dev[0] == 'stale':
        return c10_stale(driver, w, snap, ev, ctx)
    out = {'violations': [], 'stats': {'c10_repeats': 1}}
    w.restore(snap)
    w.set_pending(ctx['pre_pending'])
    cev = ctx['cev']
    states, statuses = [w.state()], []
    for i in range(1 + dev[1]):
        o = E.apply(w, cev)
        statuses.append(o.get('status'))
        # whatever the evaluation itself enqueued is processed as well
        guard = 0
        while w.pending_descr() and guard < 6:
            E.apply(w, ['run_pending', 0])
            guard += 1
        states.append(w.state())
    s3, s4 = states[-2], states[-1]
    if observable(s3) != observable(s4):
        changed = [k for k in ('refs', 'prs', 'comments', 'pending')
                   if s3[k] != s4[k]]
        out['violations'].append({
            'property': 'C10', 'fingerprint': 'no-fixpoint:%s:%s' % (
                statuses[-1], ','.join(changed)),
            'msg': 'evaluation #4 of %s still changes %s (statuses %s)' % (
                cev, changed, statuses)})
    else:
        out['stats']['c10_fixpoints'] = 1
    dups = adjacent_duplicates(states[-1])
    if dups:
        out['violations'].append({
            'property': 'C10', 'fingerprint': 'same-message-twice:%s' %
            dups[0][1],
            'msg': 'the same message twice in a row on pull request %d: %r '
                   '(after repeating %s, statuses %s)' % (
                       dups[0][0], dups[0][1], cev, statuses)})
    ncmd = sum(1 for s in statuses if s in COMMAND_STATUSES)
    if ncmd:
        out['stats']['c10_command_runs'] = ncmd
    pr_ids = [p['id'] for p in states[0]['prs'] if p['author'] != ROBOT]
    pending_cmds = sum(command_comments(states[0], k) for k in pr_ids)
    if ncmd > max(pending_cmds, 0) or ncmd > 1 and len(set(
            s for s in statuses if s in COMMAND_STATUSES)) == 1 and \
            ncmd > pending_cmds:
        out['violations'].append({
            'property': 'C10', 'fingerprint': 'command-re-executed:%s' % [
                s for s in statuses if s in COMMAND_STATUSES][0],
            'msg': '%d command executions (%s) for %d command comment(s) '
                   'while repeating %s' % (ncmd, statuses, pending_cmds,
                                           cev)})
    return out


# ---------------------------------------------------------------------------
# C16: every shell command of a job fails / hangs while printing the clone
# URL with credentials
# ---------------------------------------------------------------------------
def sentinels(w):
    from urllib.parse import quote_plus, quote
    pw = w.password
    out = {pw, quote_plus(pw), quote(pw)}
    return sorted(x for x in out if len(x) >= 4)


class FdCapture:
    """Capture file descriptors 1 and 2 (and sys.stdout/err) into a file."""
    def __init__(self, path):
        self.path = path

    def __enter__(self):
        import sys
        sys.stdout.flush()
        sys.stderr.flush()
        self.saved = (os.dup(1), os.dup(2))
        self.f = open(self.path, 'wb')
        os.dup2(self.f.fileno(), 1)
        os.dup2(self.f.fileno(), 2)
        return self

    def __exit__(self, *a):
        import sys
        sys.stdout.flush()
        sys.stderr.flush()
        os.dup2(self.saved[0], 1)
        os.dup2(self.saved[1], 2)
        os.close(self.saved[0])
        os.close(self.saved[1])
        self.f.close()

    def text(self):
        with open(self.path, 'rb') as f:
            return f.read().decode('utf-8', 'replace')


def status_pages(w):
    """Status page (html + txt) rendered by the real Flask app."""
    os.environ.setdefault('WEBHOOK_LOGIN', 'wl')
    os.environ.setdefault('WEBHOOK_PWD', 'wp')
    os.environ.setdefault('BERT_E_CLIENT_ID', 'ci')
    os.environ.setdefault('BERT_E_CLIENT_SECRET', 'cs')
    try:
        from bert_e.server import setup_server
        app = setup_server(w.berte)
        c = app.test_client()
        return [c.get('/').get_data(as_text=True),
                c.get('/?output=txt').get_data(as_text=True)]
    finally:
        for k in ('BERT_E_CLIENT_ID', 'BERT_E_CLIENT_SECRET'):
            os.environ.pop(k, None)


def c16_plan(driver, w, snap, ev, res):
    out = {'devs': [], 'ctx': {}, 'stats': {}}
    if not E.is_job(ev):
        return out
    n = len(res['obs'].get('cmds', []))
    if not n:
        return out
    out['stats']['c16_jobs'] = 1
    out['devs'] = [[f, i] for i in range(n) for f in ('fail', 'hang')]
    out['ctx'] = {'pre_pending': res['pre']['pending'],
                  'cev': concretize(ev, res['pre']),
                  'cmds': [c['cmd'][:60] for c in res['obs']['cmds']]}
    return out


def c16_run(driver, w, snap, ev, dev, ctx):
    out = {'violations': [], 'stats': {'c16_deviations': 1,
                                       'c16_' + dev[0]: 1}}
    w.restore(snap)
    w.new_berte()
    w.set_pending(ctx['pre_pending'])
    url = w.cred_url
    target = dev[1]
    hit = {}

    def hook(idx, command, kwargs, rec):
        if idx != target:
            return None
        hit['cmd'] = command
        # the command line stays the original text (so that it contains the
        # URL only if the real command does); the behaviour comes from an
        # environment variable
        env = dict(os.environ)
        if dev[0] == 'fail':
            env['VERIF_FAULT'] = (
                "echo \"fatal: unable to access '%s/': The requested URL "
                "returned error: 403\"; echo \"remote: %s\" >&2; exit 128"
                % (url, url))
        else:
            kwargs['timeout'] = 0.3
            env['VERIF_FAULT'] = (
                "echo \"fatal: unable to access '%s/'\"; sleep 2" % url)
        kwargs['env'] = env
        return 'eval "$VERIF_FAULT" # ' + command.replace('\n', ' ')
    w.cmd_hook = hook
    w.log_records = []
    cap = FdCapture(os.path.join(w.tmp, 'fdcap.%d' % os.getpid()))
    try:
        with cap:
            o = E.apply(w, ctx['cev'])
    finally:
        w.cmd_hook = None
    records, w.log_records = w.log_records, None
    if 'cmd' not in hit:
        out['stats']['c16_not_placed'] = 1
        return out
    job = w.berte.tasks_done[0] if w.berte.tasks_done else None
    channels = {
        'log': '\n'.join(records),
        'stdout/stderr': cap.text(),
        'job.status': str(o.get('status')),
        'job.details': str(o.get('details')),
        'job.as_json': job.as_json() if job is not None else '',
        'api/jobs': w.berte.get_jobs_as_json(),
        'comments': '\n'.join(c.content['raw']
                              for c in w.mock.Comment.items),
    }
    try:
        pages = status_pages(w)
        channels['status page'] = '\n'.join(pages)
    except Exception as e:
        out['stats']['c16_status_page_error'] = 1
        channels['status page'] = ''
    from urllib.parse import unquote, unquote_plus
    for name, text in channels.items():
        # also any other percent-encoding of the password
        decoded = {'': text, ' (percent-decoded)': unquote(text),
                   ' (plus-decoded)': unquote_plus(text)}
        for how, body in decoded.items():
            if how and w.password in body and not any(
                    s in text for s in sentinels(w)):
                text = body
                break
        for s in sentinels(w):
            if s in text:
                at = text.index(s)
                ctxt = text[max(0, at - 160):at + len(s) + 40].replace(
                    '\n', ' | ')
                kind = 'traceback' if 'Traceback' in text else 'message'
                culprit = 'TimeoutExpired' if 'TimeoutExpired' in text \
                    else 'other'
                out['violations'].append({
                    'property': 'C16',
                    'fingerprint': 'leak:%s:%s:%s' % (name, dev[0], culprit),
                    'msg': 'password visible in %s when command #%d (%s) '
                           '%ss during %s [job status %s]: ...%s...' % (
                               name, target, hit['cmd'][:50], dev[0],
                               ctx['cev'], o.get('status'), ctxt)})
                break
    return out


# ---------------------------------------------------------------------------
# C19: an event on a child pull request or on an integration / source commit
# is handled as an event on the parent pull request
# ---------------------------------------------------------------------------
def c19_plan(driver, w, snap, ev, res):
    out = {'devs': [], 'ctx': {}, 'stats': {}}
    if ev[0] != 'eval_pr':
        return out
    pre = res['pre']
    par = [p for p in pre['prs'] if p['id'] == ev[1]]
    if not par or par[0]['author'] == ROBOT or par[0]['state'] != 'OPEN':
        return out
    src = par[0]['src']
    hs = M.heads(pre)
    devs = []
    for c in pre['prs']:
        # open or closed (somebody may have declined it by hand)
        if c['author'] == ROBOT and \
                M.wref_parts(c['src']) and M.wref_parts(c['src'])[1] == src:
            devs.append(['eval_pr', c['id']])
    qtips = {s for b, s in hs.items() if b.startswith('q/')}
    for b, sha in hs.items():
        if b == src or (M.wref_parts(b) and M.wref_parts(b)[1] == src):
            # a commit that is also a queue tip is a queue event
            if sha in qtips:
                continue
            # a commit shared with another pull request is ambiguous
            others = [x for x, s2 in hs.items() if s2 == sha and x != b and
                      not (x == src or (M.wref_parts(x) and
                                        M.wref_parts(x)[1] == src))]
            if others:
                continue
            devs.append(['eval_sha', sha])
    out['devs'] = devs
    out['ctx'] = {'pre_pending': pre['pending'],
                  'post_obs': [res['post']['refs'], res['post']['prs'],
                               res['post']['comments']],
                  'status': res['obs'].get('status')}
    return out


def c19_run(driver, w, snap, ev, dev, ctx):
    out = {'violations': [], 'stats': {'c19_redirects': 1}}
    w.restore(snap)
    w.set_pending(ctx['pre_pending'])
    o = E.apply(w, dev)
    st = w.state()
    got = [st['refs'], st['prs'], st['comments']]
    if got != ctx['post_obs'] or o.get('status') != ctx['status']:
        diff = [n for n, a, b in zip(('refs', 'prs', 'comments'), got,
                                     ctx['post_obs']) if a != b]
        out['violations'].append({
            'property': 'C19', 'fingerprint': 'redirect-differs:%s:%s' % (
                dev[0], ','.join(diff)),
            'msg': '%s is not handled like %s: status %s vs %s, differing '
                   '%s' % (dev, ev, o.get('status'), ctx['status'], diff)})
    return out


# ---------------------------------------------------------------------------
# C06: a developer pushes to the source branch right after Bert-E's clone
# ---------------------------------------------------------------------------
def c06_plan(driver, w, snap, ev, res):
    out = {'devs': [], 'ctx': {}, 'stats': {}}
    if ev[0] != 'eval_pr' or res['obs'].get('status') not in (
            'Queued', 'SuccessMessage'):
        return out
    pr = [p for p in res['pre']['prs'] if p['id'] == ev[1]]
    if not pr or pr[0]['author'] == ROBOT:
        return out
    cmds = res['obs'].get('cmds', [])
    at = [c['i'] for c in cmds if 'git remote update origin' in c['cmd']]
    if not at:
        return out
    out['devs'] = [['source_push_after_clone', at[-1] + 1, pr[0]['src']]]
    out['ctx'] = {'pre_pending': res['pre']['pending']}
    return out


def c06_run(driver, w, snap, ev, dev, ctx):
    out = {'violations': [], 'stats': {'c06_source_push_runs': 1}}
    w.restore(snap)
    w.set_pending(ctx['pre_pending'])
    pre = w.state()
    done = {}

    def hook(idx, command, kwargs, rec):
        if idx == dev[1] and not done:
            done['x'] = 1
            E.apply(w, ['push', dev[2]])
        return None
    w.cmd_hook = hook
    try:
        o = E.apply(w, ev)
    finally:
        w.cmd_hook = None
    post = w.state()
    out['stats']['c06_source_push_' + str(o.get('status'))] = 1
    mon = M.c06(driver)
    v, st = mon(w, pre, ev, o, post)
    for x in v:
        x['msg'] = 'a commit was pushed to %s right after Bert-E cloned the ' \
            'repository: %s' % (dev[2], x['msg'])
        x['fingerprint'] = 'source-push-after-clone'
    out['violations'] = v
    return out
