"""Glue between the SYS explorer and the runner: run a list of driver specs,
merge coverage, cross-check determinism in fresh processes, build the
CheckResult."""
import collections
import hashlib
import json
import os
import random
import subprocess
import sys

from . import explorer
from ..runner import CheckResult, HERE


def key_chain(res, key):
    chain = [key]
    while True:
        p = res.parents.get(key)
        if p is None or p[0] is None:
            break
        key = p[0]
        chain.append(key)
    return list(reversed(chain))


def fresh_replay(spec, history, timeout=900):
    """Replay in a brand-new process; returns dict(keys, statuses,
    violations) or raises."""
    req = json.dumps({'driver': spec, 'history': history})
    p = subprocess.Popen([sys.executable, '-m', 'vf.sysmc.explorer', req],
                         cwd=HERE, stdout=subprocess.PIPE,
                         stderr=subprocess.PIPE, universal_newlines=True)
    return p


def collect_replay(p, timeout=900):
    out, err = p.communicate(timeout=timeout)
    for line in out.splitlines():
        if line.startswith('REPLAY-RESULT '):
            return json.loads(line[len('REPLAY-RESULT '):])
    raise RuntimeError('fresh replay failed: %s\n%s' % (out[-2000:],
                                                       err[-2000:]))


def default_fingerprint(spec, v):
    blob = json.dumps([spec.get('name'), v.get('history'), v.get('deviation'),
                       v.get('msg')], sort_keys=True)
    return hashlib.sha1(blob.encode()).hexdigest()[:12]


def run_specs(prop, specs, seed, workers=None, level='model_checking',
              required_statuses=(), nontrivial_stat=None, xcheck=2,
              rule='', assumptions=(), fingerprint=None, properties=None):
    """properties: set of monitor property ids that decide this check
    (default {prop})."""
    properties = properties or {prop}
    cr = CheckResult(prop, level)
    only = [x for x in os.environ.get('VERIF_ONLY_SPECS', '').split(',') if x]
    if only:
        # development aid: run the matching explorations only (the runner
        # then keeps the evidence out of /verif/evidence)
        specs = [s for s in specs
                 if any(x in (s.get('name') or '') for x in only)]
        cr.notes.append('partial run: VERIF_ONLY_SPECS=%s (%d explorations)'
                        % (','.join(only), len(specs)))
    rng = random.Random(seed)
    tot = collections.Counter()
    statuses, stats = collections.Counter(), collections.Counter()
    per_spec, samples = [], []
    exhaustive = True
    validated = 0
    for spec in specs:
        r = explorer.explore(spec, workers=workers)
        tot['states'] += r.states
        tot['transitions'] += r.transitions
        tot['jobs'] += r.job_transitions
        statuses.update(r.statuses)
        stats.update(r.stats)
        exhaustive = exhaustive and (r.exhaustive or
                                     (r.stopped or '').startswith('depth'))
        per_spec.append({'name': spec.get('name'), 'states': r.states,
                         'transitions': r.transitions, 'depth': r.depth,
                         'closed': r.exhaustive, 'stopped': r.stopped,
                         'wall_s': round(r.wall, 1),
                         'config': spec.get('config')})
        for e in r.errors[:3]:
            cr.harness_errors.append('worker error in %s: %s' % (
                spec.get('name'), e.get('error', '')[-1500:]))
        if r.stopped and r.stopped.startswith('time cap'):
            cr.harness_errors.append('%s: %s' % (spec.get('name'), r.stopped))
        seen_fp = set()
        to_confirm = []
        for v in r.violations:
            if v.get('property') == 'HARNESS':
                cr.harness_errors.append(v['msg'][-1500:])
                continue
            if v.get('property') not in properties:
                continue
            fp = v.get('fingerprint') or (fingerprint or
                                          default_fingerprint)(spec, v)
            cr.add_violation(v['msg'], fp, {
                'engine': 'sys', 'driver': spec, 'history': v['history'],
                'deviation': v.get('deviation')})
            if fp not in seen_fp and len(seen_fp) < 2 and \
                    not v.get('deviation'):
                seen_fp.add(fp)
                to_confirm.append(v)
        # determinism cross-check in fresh processes
        keys = sorted(r.parents)
        deep = sorted(keys, key=lambda k: (-len(key_chain(r, k)), k))
        picks = deep[:1] + rng.sample(keys, min(max(xcheck - 1, 0),
                                                len(keys)))
        procs = []
        for k in picks[:xcheck]:
            h = r.history_of(k)
            procs.append((k, h, fresh_replay(spec, h)))
        for v in to_confirm:
            procs.append((None, v['history'], fresh_replay(spec,
                                                           v['history'])))
        for k, h, p in procs:
            try:
                out = collect_replay(p)
            except Exception as e:
                cr.harness_errors.append(str(e)[-1500:])
                continue
            if k is not None:
                chain = key_chain(r, k)
                exp_sts = [r.status_into.get(x) for x in chain[1:]]
                if out['keys'] == chain and out['statuses'] != exp_sts:
                    cr.harness_errors.append(
                        'NONDETERMINISM: fresh-process replay of %s gives '
                        'job statuses %s, the long-lived explorer saw %s' % (
                            h, out['statuses'], exp_sts))
                elif out['keys'] != key_chain(r, k):
                    cr.harness_errors.append(
                        'NONDETERMINISM: fresh-process replay of %s diverges '
                        'from the explored path (%s vs %s)' % (
                            h, out['keys'], key_chain(r, k)))
                else:
                    validated += 1
                    if len(samples) < 3:
                        samples.append({'driver': spec.get('name'),
                                        'history': h,
                                        'job_statuses': out['statuses']})
            else:
                if not out['violations']:
                    cr.harness_errors.append(
                        'NONDETERMINISM: violation not reproduced by a '
                        'fresh-process replay of %s' % h)
    missing = [s for s in required_statuses if not statuses.get(s)]
    if missing:
        cr.harness_errors.append('vacuous exploration: job statuses never '
                                 'seen: %s' % missing)
    if nontrivial_stat and not stats.get(nontrivial_stat):
        cr.harness_errors.append('vacuous exploration: monitor never had '
                                 'anything to check (%s=0)' % nontrivial_stat)
    cr.coverage = {
        'states': tot['states'], 'transitions': tot['transitions'],
        'job_transitions': tot['jobs'],
        'traces_validated_against_impl': validated,
        'evaluations': tot['transitions'],
        'distinct_nontrivial': int(stats.get(nontrivial_stat, 0))
        if nontrivial_stat else tot['states'],
        'rule': rule, 'exhaustive': bool(exhaustive),
        'job_statuses': dict(statuses), 'monitor_stats': dict(stats),
        'explorations': per_spec, 'samples': samples or [
            {'driver': s.get('name'), 'init': s.get('init')} for s in specs],
    }
    cr.assumptions = list(assumptions) + [
        'commands are spawned with start_new_session=True instead of '
        'preexec_fn=os.setsid (same setsid() in the child, vfork instead of '
        'fork; VERIF_FAST_SPAWN=0 restores the original call; always '
        'original for C16)']
    return cr


def replay_sys(data, properties):
    """Re-execute a replay file without the explorer."""
    out = explorer.replay(data['driver'], data['history'],
                          deviation=data.get('deviation'))
    viol = [v for v in out['violations'] if v.get('property') in properties]
    text = 'history: %s\nstatuses: %s\n' % (data['history'], out['statuses'])
    for v in viol:
        text += 'violation: %s\n' % v['msg']
    import shutil
    shutil.rmtree(explorer.master_root(), ignore_errors=True)
    return (not viol), text
