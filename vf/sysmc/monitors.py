"""SYS engine, part 5: monitors.  A monitor is built from the driver and is
a function (world_after, pre_state, event, observation, post_state) ->
(violations, stats).  Monitors ask the remote repository and the host tables,
never Bert-E's own idea of what happened."""
from .world import dest_sort_key, ROBOT

DEST_KINDS = ('development', 'stabilization', 'hotfix')


def heads(state):
    return {k: v for k, v in state['refs'].items()
            if not k.startswith('refs/')}


def dests(state):
    return {k: v for k, v in heads(state).items()
            if k.split('/')[0] in DEST_KINDS}


def is_robot_ref(name):
    return name.startswith(('w/', 'q/', 'tmp/'))


def chain_breaks(w, refs):
    """Pairs (earlier, later) of the C01 chain that are NOT included.
    Development branches are totally ordered (x.y by (x, y), x after x.*);
    each stabilization/x.y.z must be contained in development/x.y."""
    devs, stabs = [], []
    for name, sha in refs.items():
        k = dest_sort_key(name)
        if k is None:
            continue
        (devs if name.startswith('development/') else stabs).append(
            (k, name, sha))
    devs.sort()
    out = []
    for (k1, n1, s1), (k2, n2, s2) in zip(devs, devs[1:]):
        if not w.is_ancestor(s1, s2):
            out.append((n1, n2))
    for k, n, s in stabs:
        for kd, nd, sd in devs:
            if kd[:3] == k[:3]:
                if not w.is_ancestor(s, sd):
                    out.append((n, nd))
    return out


def c01(driver):
    def mon(w, pre, ev, obs, post):
        d0, d1 = dests(pre), dests(post)
        if d0 == d1:
            return [], {}
        stats = {'c01_dest_changed': 1}
        before = chain_breaks(w, d0)
        if before:
            stats['c01_pre_broken'] = 1
            return [], stats
        after = chain_breaks(w, d1)
        if after:
            return [{'property': 'C01',
                     'msg': 'forward-port inclusion broken by %s: %s' % (
                         ev, ['%s not in %s' % p for p in after])}], stats
        return [], stats
    return mon


REGISTRY = {'c01': c01}
