"""SYS engine, part 5: monitors.  A monitor is built from the driver and is
a function (world_after, pre_state, event, observation, post_state) ->
(violations, stats).  Monitors ask the remote repository and the host tables,
never Bert-E's own idea of what happened."""
from .world import dest_sort_key, ROBOT

DEST_KINDS = ('development', 'stabilization', 'hotfix')


def heads(state):
    return {k: v for k, v in state['refs'].items()
            if not k.startswith('refs/')}


def dests(state):
    return {k: v for k, v in heads(state).items()
            if k.split('/')[0] in DEST_KINDS}


def is_robot_ref(name):
    return name.startswith(('w/', 'q/', 'tmp/'))


def chain_breaks(w, refs):
    """Pairs (earlier, later) of the C01 chain that are NOT included.
    Development branches are totally ordered (x.y by (x, y), x after x.*);
    each stabilization/x.y.z must be contained in development/x.y."""
    devs, stabs = [], []
    for name, sha in refs.items():
        k = dest_sort_key(name)
        if k is None:
            continue
        (devs if name.startswith('development/') else stabs).append(
            (k, name, sha))
    devs.sort()
    out = []
    for (k1, n1, s1), (k2, n2, s2) in zip(devs, devs[1:]):
        if not w.is_ancestor(s1, s2):
            out.append((n1, n2))
    for k, n, s in stabs:
        for kd, nd, sd in devs:
            if kd[:3] == k[:3]:
                if not w.is_ancestor(s, sd):
                    out.append((n, nd))
    return out


def c01(driver):
    def mon(w, pre, ev, obs, post):
        d0, d1 = dests(pre), dests(post)
        if d0 == d1:
            return [], {}
        stats = {'c01_dest_changed': 1}
        before = chain_breaks(w, d0)
        if before:
            stats['c01_pre_broken'] = 1
            return [], stats
        after = chain_breaks(w, d1)
        if after:
            return [{'property': 'C01',
                     'msg': 'forward-port inclusion broken by %s: %s' % (
                         ev, ['%s not in %s' % p for p in after])}], stats
        return [], stats
    return mon


def has_bypass_build(state, pr_id, config):
    """bypass_build_status granted to this pull request by an admin comment,
    a per-author setting or the command line."""
    if 'bypass_build_status' in config.options:
        return True
    pr = [p for p in state['prs'] if p['id'] == pr_id]
    if pr and 'bypass_build_status' in (config.pr_author_options or {}).get(
            pr[0]['author'], ()):
        return True
    for cid, user, text in state['comments']:
        if cid == pr_id and user in config.admins and \
                'bypass_build_status' in text and \
                (not pr or user != pr[0]['author']):
            return True
    return False


def evaluated_pr(pre, ev):
    """The parent pull request an eval_pr event is about."""
    if ev[0] != 'eval_pr':
        return None
    for p in pre['prs']:
        if p['id'] == ev[1]:
            if p['author'] != ROBOT:
                return p['id']
            import re
            ids = re.findall(r'\d+', p['description'])
            return int(ids[0]) if ids else None
    return None


def c03(driver):
    """With queues on, a destination branch only advances to a commit whose
    build (configured key) is SUCCESSFUL on that very commit."""
    key = driver.config.build_key

    def mon(w, pre, ev, obs, post):
        if not driver.config.queue:
            return [], {}
        d0, d1 = dests(pre), dests(post)
        moved = [(b, d0[b], d1[b]) for b in d1 if b in d0 and d0[b] != d1[b]]
        if not moved:
            return [], {}
        stats = {'c03_dest_moved': len(moved)}
        if ev[0] == 'force_merge':
            stats['c03_force_merge'] = 1
            return [], stats
        status = obs.get('status')
        if status == 'SuccessMessage':
            k = evaluated_pr(pre, ev)
            if k is not None and has_bypass_build(pre, k, driver.config):
                stats['c03_direct_merge_bypassed'] = 1
                return [], stats
        out = []
        for b, old, new in moved:
            st = w.status_of(new, key)
            if st != 'SUCCESSFUL':
                out.append({'property': 'C03', 'msg':
                            '%s advanced to %s whose %s build is %s '
                            '(event %s, job status %s)' % (
                                b, new[:10], key, st, ev, status)})
        return out, stats
    return mon


INFO_TITLES = ('# Hello', '# Integration data created')


def c06(driver):
    """Entering the queue / merging directly requires a green build on every
    integration commit; waiting for a build is silent."""
    key = driver.config.build_key

    def mon(w, pre, ev, obs, post):
        status = obs.get('status')
        if status not in ('Queued', 'SuccessMessage', 'BuildNotStarted',
                          'BuildInProgress'):
            return [], {}
        k = evaluated_pr(pre, ev)
        if k is None and ev[0] in ('eval_commit', 'eval_sha', 'run_pending'):
            # find the PR whose comment list grew / that got queued
            before = {p['id'] for p in pre['prs']}
            for p in post['prs']:
                if p['author'] != ROBOT and p['id'] in before:
                    c0 = [c for c in pre['comments'] if c[0] == p['id']]
                    c1 = [c for c in post['comments'] if c[0] == p['id']]
                    q0 = [r for r in heads(pre) if r.startswith(
                        'q/w/%d/' % p['id'])]
                    q1 = [r for r in heads(post) if r.startswith(
                        'q/w/%d/' % p['id'])]
                    if c0 != c1 or q0 != q1:
                        k = p['id']
        if k is None:
            return [], {}
        out, stats = [], {}
        new_comments = [c for c in post['comments']
                        if c[0] == k][len([c for c in pre['comments']
                                           if c[0] == k]):]
        if status in ('BuildNotStarted', 'BuildInProgress'):
            stats['c06_waiting'] = 1
            for _, user, text in new_comments:
                if user == ROBOT and not text.startswith(INFO_TITLES):
                    out.append({'property': 'C06', 'msg':
                                'job ended %s but commented: %r' % (
                                    status, text[:80])})
            return out, stats
        if not key or has_bypass_build(pre, k, driver.config):
            stats['c06_gate_bypassed'] = 1
            return [], stats
        src = [p['src'] for p in post['prs'] if p['id'] == k][0]
        if status == 'Queued':
            refs = heads(post)
        else:
            # direct merge: the integration branches are gone afterwards;
            # take them as they were when the final push started
            pushes = [c for c in obs.get('cmds', [])
                      if ('--atomic' in c['cmd'] and c['cmd'].startswith('git push')) and
                      'before' in c]
            refs = {r: s for r, s in (pushes[-1]['before'] if pushes
                                      else pre['refs']).items()
                    if not r.startswith('refs/')}
        tips = [(b, s) for b, s in refs.items()
                if b == src or (b.startswith('w/') and b.endswith('/' + src))]
        stats['c06_gate_passed'] = 1
        for b, s in tips:
            st = w.status_of(s, key)
            if st != 'SUCCESSFUL':
                out.append({'property': 'C06', 'msg':
                            'pull request %d %s although the %s build of '
                            'integration commit %s (%s) is %s' % (
                                k, 'entered the queue' if status == 'Queued'
                                else 'was merged', key, s[:10], b, st)})
        return out, stats
    return mon


def tags(state):
    return {k[len('refs/tags/'):]: v for k, v in state['refs'].items()
            if k.startswith('refs/tags/')}


def c08_judge(w, pre, ev, obs, post, left=None):
    """C08 on one job.  `left`: refs as a third party left them (overrides
    the pre-state for those refs).  Returns list of (fingerprint, msg)."""
    out = []
    h0, h1 = dict(heads(pre)), heads(post)
    if left:
        h0.update(left)
    site = '?'
    for c in obs.get('cmds', []):
        if c['cmd'].startswith('git push'):
            site = c.get('site', site)
            words = c['cmd'].split()
            if any(x in ('--force', '-f', '--force-with-lease') or
                   x.strip("'").startswith('+') for x in words[2:]):
                out.append(('forced-push@%s' % site,
                            'forced push: %s' % c['cmd']))
    is_delete = ev[0] == 'delete_branch'
    for b, old in h0.items():
        kind = b.split('/')[0]
        new = h1.get(b)
        if kind in DEST_KINDS:
            if new is None:
                tag_ok = False
                if is_delete and ev[1] == b:
                    ver = b.split('/', 1)[1]
                    t = tags(post)
                    name = ver + '.archived_hotfix_branch' \
                        if kind == 'hotfix' else ver
                    tag_ok = name in t and w.git(
                        'rev-parse', t[name] + '^{commit}') == old
                if not tag_ok:
                    out.append(('dest-deleted:%s@%s' % (b, site),
                                'destination branch %s deleted without an '
                                'archive tag on its tip (event %s)' % (b,
                                                                       ev)))
            elif new != old and not w.is_ancestor(old, new):
                out.append(('dest-rewritten:%s@%s' % (b, site),
                            '%s updated %s -> %s which is not a '
                            'fast-forward (event %s)' % (b, old[:10],
                                                         new[:10], ev)))
        elif not is_robot_ref(b):
            if new != old:
                what = 'deleted' if new is None else \
                    'moved %s -> %s' % (old[:10], new[:10])
                out.append(('foreign-ref-%s@%s' % (
                    'deleted' if new is None else 'moved', site),
                    'branch %s, which Bert-E does not own, was %s (event '
                    '%s, push issued by %s)' % (b, what, ev, site)))
    # consequence: nothing that was a destination tip becomes unreachable
    allrefs = list(post['refs'].values())
    for b, old in dests(pre).items():
        if not any(old == r or w.is_ancestor(old, r) for r in allrefs):
            out.append(('dest-tip-unreachable:%s@%s' % (b, site),
                        'former tip %s of %s is no longer reachable from any '
                        'branch or tag' % (old[:10], b)))
    return out


def c08(driver):
    def mon(w, pre, ev, obs, post):
        if obs.get('status') is None and not obs.get('cmds'):
            return [], {}
        pushes = [c for c in obs.get('cmds', [])
                  if c['cmd'].startswith('git push')]
        stats = {'c08_jobs': 1, 'c08_pushes': len(pushes)}
        found = c08_judge(w, pre, ev, obs, post)
        return [{'property': 'C08', 'fingerprint': fp, 'msg': msg}
                for fp, msg in found], stats
    return mon


def wref_parts(name):
    """w/<version>/<source> -> (version, source) or None."""
    if not name.startswith('w/'):
        return None
    ver, sep, src = name[2:].partition('/')
    if not sep or not ver.replace('.', '').isdigit():
        return None
    return ver, src


def c19(driver):
    """Integration branches and pull requests are one-to-one with their
    parent; decline/merge clean up exactly the parent's ones."""
    from .faults import targets_of

    def mon(w, pre, ev, obs, post):
        out, stats = [], {}
        hs = heads(post)
        dnames = list(dests(post))
        parents = {p['src']: p for p in post['prs'] if p['author'] != ROBOT}
        children = [p for p in post['prs'] if p['author'] == ROBOT]
        seen = {}
        for c in children:
            if c['state'] != 'OPEN':
                continue
            stats['c19_open_children'] = stats.get('c19_open_children', 0) + 1
            k = (c['src'], c['dst'])
            seen[k] = seen.get(k, 0) + 1
            parts = wref_parts(c['src'])
            par = parents.get(parts[1]) if parts else None
            if par is None:
                out.append({'property': 'C19', 'msg':
                            'open integration pull request %d (%s) has no '
                            'parent pull request' % (c['id'], c['src'])})
                continue
            want = 'INTEGRATION [PR#%d > %s] %s' % (par['id'], c['dst'],
                                                    par['title'])
            if c['title'] != want:
                out.append({'property': 'C19', 'msg':
                            'integration pull request %d is titled %r, '
                            'expected %r' % (c['id'], c['title'], want)})
            if c['dst'].split('/', 1)[1] != parts[0]:
                out.append({'property': 'C19', 'msg':
                            'integration pull request %d goes from %s to %s'
                            % (c['id'], c['src'], c['dst'])})
        for k, n in seen.items():
            if n > 1:
                out.append({'property': 'C19', 'fingerprint':
                            'duplicate-integration-pr', 'msg':
                            '%d open integration pull requests %s -> %s '
                            '(after %s)' % (n, k[0], k[1], ev)})
        # integration branches only for targets beyond the first
        for b in hs:
            parts = wref_parts(b)
            if not parts:
                continue
            par = parents.get(parts[1])
            if par is None:
                continue
            T = targets_of(par['dst'], dnames + [par['dst']])
            versions = [t.split('/', 1)[1] for t in T[1:]]
            if parts[0] not in versions and par['dst'] in dnames:
                out.append({'property': 'C19', 'msg':
                            'integration branch %s is not for a target '
                            'beyond the first of pull request %d (%s)' % (
                                b, par['id'], T)})
        status = obs.get('status')
        # decline: exactly the parent's children / branches
        if status == 'PullRequestDeclined':
            k = evaluated_pr(pre, ev)
            par = [p for p in pre['prs'] if p['id'] == k]
            if par:
                stats['c19_declines'] = 1
                src = par[0]['src']
                mine = {b for b in heads(pre) if wref_parts(b) and
                        wref_parts(b)[1] == src}
                gone = set(heads(pre)) - set(hs)
                changed = {b for b in hs if b in heads(pre) and
                           heads(pre)[b] != hs[b]} | (set(hs) -
                                                      set(heads(pre)))
                if gone != mine or changed:
                    out.append({'property': 'C19', 'msg':
                                'declining pull request %d deleted %s '
                                '(its integration branches: %s), changed %s'
                                % (k, sorted(gone), sorted(mine),
                                   sorted(changed))})
                before = {p['id']: p for p in pre['prs']}
                declined = {p['id'] for p in post['prs']
                            if p['state'] == 'DECLINED' and
                            before[p['id']]['state'] == 'OPEN'}
                # its integration pull requests = the robot's open pull
                # requests from a w/<version>/<its source> name, whether or
                # not that branch still exists (the mock host keeps a pull
                # request open when its branch is deleted)
                expect = {p['id'] for p in pre['prs']
                          if p['author'] == ROBOT and p['state'] == 'OPEN'
                          and wref_parts(p['src']) and
                          wref_parts(p['src'])[1] == src}
                if declined != expect:
                    out.append({'property': 'C19', 'msg':
                                'declining pull request %d declined %s, its '
                                'open integration pull requests are %s' % (
                                    k, sorted(declined), sorted(expect))})
        # whatever the job answered: once a declined parent was evaluated to
        # the end, none of its integration branches / open integration pull
        # requests may be left
        k = evaluated_pr(pre, ev)
        par = [p for p in pre['prs'] if p['id'] == k and
               p['state'] == 'DECLINED' and p['author'] != ROBOT]
        if par and status in ('PullRequestDeclined', 'NothingToDo'):
            src = par[0]['src']
            left = [b for b in hs if wref_parts(b) and
                    wref_parts(b)[1] == src]
            left_prs = [c['id'] for c in children if c['state'] == 'OPEN' and
                        wref_parts(c['src']) and
                        wref_parts(c['src'])[1] == src]
            stats['c19_declined_evaluations'] = 1
            if left or left_prs:
                out.append({'property': 'C19', 'fingerprint':
                            'declined-leftovers', 'msg':
                            'pull request %d is declined and was evaluated '
                            '(%s) but integration branches %s / open '
                            'integration pull requests %s are left' % (
                                k, status, left, left_prs)})
        if status in ('SuccessMessage', 'Merged'):
            for p in post['prs']:
                if p['author'] != ROBOT and p['state'] == 'MERGED':
                    left = [b for b in hs if wref_parts(b) and
                            wref_parts(b)[1] == p['src']]
                    was = [q for q in pre['prs'] if q['id'] == p['id'] and
                           q['state'] == 'OPEN']
                    if left and was:
                        out.append({'property': 'C19', 'msg':
                                    'pull request %d is merged but %s '
                                    'remain' % (p['id'], left)})
                    if was:
                        stats['c19_merges'] = stats.get('c19_merges', 0) + 1
        return out, stats
    return mon


def c15(driver):
    """reset never silently discards manual work and only touches its own
    pull request.  Ground truth: manual commits are those the harness made
    (message 'manual fix on ...')."""
    def mon(w, pre, ev, obs, post):
        if ev[0] != 'seq' or ev[1][0] != 'comment' or \
                'reset' not in ev[1][3]:
            if ev[0] == 'eval_pr' and ev[1] == 1:
                return after_reset(w, pre, ev, obs, post)
            return [], {}
        force = 'force_reset' in ev[1][3]
        status = obs.get('status')
        stats = {'c15_commands': 1, 'c15_' + str(status): 1}
        out = []
        h0, h1 = heads(pre), heads(post)
        pr1 = [p for p in pre['prs'] if p['id'] == 1][0]
        src = pr1['src']
        mine = {b for b in h0 if wref_parts(b) and wref_parts(b)[1] == src}
        manual = []
        for b in sorted(mine):
            ver = wref_parts(b)[0]
            dst = [d for d in dests(pre) if d.split('/', 1)[1] == ver]
            if not dst:
                continue
            log = w.git('log', '--format=%H %s', h0[b], '^' + h0[dst[0]])
            for line in log.splitlines():
                sha, _, subject = line.partition(' ')
                if subject.startswith('manual fix on'):
                    manual.append((b, sha[:10]))
        if manual:
            stats['c15_with_manual_work'] = 1
        gone = set(h0) - set(h1)
        changed = {b for b in h1 if b in h0 and h0[b] != h1[b]} | \
            (set(h1) - set(h0))
        before = {p['id']: p for p in pre['prs']}
        declined = {p['id'] for p in post['prs'] if p['id'] in before and
                    before[p['id']]['state'] == 'OPEN' and
                    p['state'] == 'DECLINED'}
        other_pr_changes = [p['id'] for p in post['prs'] if p['id'] in before
                            and p['id'] not in declined and
                            {k: v for k, v in p.items()
                             if k != 'participants'} !=
                            {k: v for k, v in before[p['id']].items()
                             if k != 'participants'}]
        fp_base = 'history:%s' % ([e[0] if e[0] != 'seq' else 'merge_pr2'
                                   for e in driver_history(w, driver)],)
        if not force and manual and status != 'LossyResetWarning' and (
                gone or status == 'ResetComplete'):
            # classify: was every lost commit made on a commit of the source
            # branch or of the destination (integration branch had been
            # fast-forwarded, so nothing in the graph tells it is manual)?
            ff = True
            lost = {sha for _, sha in manual}
            for b, sha in manual:
                # follow first parents through other manual commits down to
                # the commit the integration branch pointed to
                cur = sha
                for _ in range(10):
                    ps = w.git('rev-list', '--parents', '-n', '1',
                               cur).split()
                    if len(ps) != 2:
                        ff = False
                        break
                    cur = ps[1]
                    subj = w.git('log', '-1', '--format=%s', cur)
                    if not subj.startswith('manual fix on'):
                        break
                author = w.git('log', '-1', '--format=%an', cur)
                if author == ROBOT:
                    ff = False   # made on a robot merge commit: detectable
            v = {'property': 'C15', 'msg':
                 '`reset` ended %s although integration branches hold '
                 'manual commits %s; deleted %s' % (
                     status, manual, sorted(gone))}
            if ff:
                v['fingerprint'] = \
                    'manual-commit-on-fast-forwarded-integration-branch'
            out.append(v)
        elif False:
            out.append({'property': 'C15', 'msg':
                        '`reset` ended %s although integration branches hold '
                        'manual commits %s; deleted %s' % (
                            status, manual, sorted(gone))})
        if status == 'LossyResetWarning':
            if gone or changed or declined or other_pr_changes:
                out.append({'property': 'C15', 'msg':
                            'reset refused (LossyResetWarning) but deleted '
                            '%s, changed %s, declined %s' % (
                                sorted(gone), sorted(changed),
                                sorted(declined))})
        elif status == 'ResetComplete':
            expect_decl = {p['id'] for p in pre['prs']
                           if p['author'] == ROBOT and p['state'] == 'OPEN'
                           and p['src'] in mine}
            if gone != mine or changed:
                out.append({'property': 'C15', 'msg':
                            '%s deleted %s and changed %s; the integration '
                            'branches of the pull request are %s' % (
                                ev[1][3], sorted(gone), sorted(changed),
                                sorted(mine))})
            if declined != expect_decl or other_pr_changes:
                out.append({'property': 'C15', 'msg':
                            '%s declined %s (expected %s), other pull '
                            'requests changed: %s' % (
                                ev[1][3], sorted(declined),
                                sorted(expect_decl), other_pr_changes)})
        elif gone or changed or declined or other_pr_changes:
            out.append({'property': 'C15', 'msg':
                        'command %s ended with status %s and deleted %s, '
                        'changed %s, declined %s' % (
                            ev[1][3], status, sorted(gone), sorted(changed),
                            sorted(declined))})
        else:
            stats['c15_command_not_executed'] = 1
        return out, stats

    def after_reset(w, pre, ev, obs, post):
        """The evaluation after a completed reset rebuilds the integration
        branches (when there is still something to merge)."""
        # the robot's latest word is "Reset complete" (in this driver every
        # reset comment is evaluated at once, so a command comment after
        # that answer has been executed too, answered or not)
        pr1c = [c for c in pre['comments'] if c[0] == 1 and c[1] == ROBOT]
        if not pr1c or 'Reset complete' not in pr1c[-1][2]:
            return [], {}
        tail = [c for c in pre['comments'] if c[0] == 1]
        tail = tail[max(i for i, c in enumerate(tail) if c[1] == ROBOT) + 1:]
        if any('reset' not in c[2] for c in tail):
            return [], {}
        pr1 = [p for p in post['prs'] if p['id'] == 1][0]
        h1 = heads(post)
        if pr1['state'] != 'OPEN' or pr1['src'] not in h1:
            return [], {}
        status = obs.get('status')
        if status in ('NothingToDo', 'Conflict', 'BranchHistoryMismatch'):
            return [], {'c15_rebuild_not_applicable': 1}
        from .faults import targets_of
        T = targets_of(pr1['dst'], list(dests(post)))
        missing = [t for t in T[1:] if 'w/%s/%s' % (
            t.split('/', 1)[1], pr1['src']) not in h1]
        if missing:
            return [{'property': 'C15', 'msg':
                     'after a completed reset the next evaluation (%s) did '
                     'not rebuild integration branches for %s' % (
                         status, missing)}], {}
        return [], {'c15_rebuilt': 1}
    return mon


def c12(driver):
    """Held-back and finished pull requests are left alone; a lifted hold
    lets the next evaluation proceed.  Pull request 1 is the subject."""
    import re
    from .faults import user_commits
    S = driver.spec.get('subject', 1)

    def held(state):
        """Reason why PR 1 is on hold in this state, or None."""
        pr1 = [p for p in state['prs'] if p['id'] == S][0]
        if pr1['state'] != 'OPEN':
            return 'pull request is ' + pr1['state']
        by_id = {p['id']: p for p in state['prs']}
        for cid, user, text in state['comments']:
            if cid != S or user == ROBOT or not text.startswith('@robot'):
                continue
            words = text.replace('@robot', ' ').split()
            if 'wait' in words:
                return 'wait'
            for wd in words:
                m = re.match(r'^after_pull_request=(\d+)$', wd)
                if m:
                    dep = by_id.get(int(m.group(1)))
                    if dep is None:
                        return 'dependency on unknown pull request'
                    if dep['state'] != 'MERGED':
                        return 'dependency on %s pull request %d' % (
                            dep['state'], dep['id'])
        return None

    def mon(w, pre, ev, obs, post):
        if obs.get('status') is None and ev[0] != 'seq':
            return [], {}
        reason = held(pre)
        pr1 = [p for p in pre['prs'] if p['id'] == S][0]
        src = pr1['src']
        h0, h1 = heads(pre), heads(post)
        out, stats = [], {}
        if reason:
            stats['c12_evaluations_on_hold'] = 1
            new_w = [b for b in h1 if b not in h0 and wref_parts(b) and
                     wref_parts(b)[1] == src]
            moved_w = [b for b in h1 if b in h0 and h0[b] != h1[b] and
                       wref_parts(b) and wref_parts(b)[1] == src]
            new_q = [b for b in h1 if b not in h0 and
                     b.startswith('q/w/%d/' % S)]
            new_children = [p['id'] for p in post['prs']
                            if p['author'] == ROBOT and
                            p['id'] not in {q['id'] for q in pre['prs']} and
                            wref_parts(p['src']) and
                            wref_parts(p['src'])[1] == src]
            landed = []
            tip = h0.get(src) or pr1.get('frozen')
            if tip and pr1['state'] != 'MERGED':
                commits = user_commits(w, tip)
                for b, s in dests(post).items():
                    old = dests(pre).get(b)
                    for c in commits[:1]:
                        if w.is_ancestor(c, s) and not (
                                old and w.is_ancestor(c, old)):
                            landed.append(b)
            already_queued = any(b.startswith('q/w/%d/' % S) for b in h0)
            if new_w or moved_w or new_q or new_children or landed:
                fp = 'held:%s:%s' % (
                    reason.split(' pull request')[0],
                    'merged-from-queue' if landed and already_queued and
                    not (new_w or new_q or new_children) else 'progress')
                out.append({'property': 'C12', 'fingerprint': fp, 'msg':
                            'the pull request is on hold (%s) but %s created '
                            'integration branches %s, updated %s, queue '
                            'entries %s, integration PRs %s, landed on %s '
                            '(job status %s)' % (
                                reason, ev, new_w, moved_w, new_q,
                                new_children, landed, obs.get('status'))})
        elif ev == ['eval_pr', S]:
            stats['c12_evaluations_free'] = 1
            status = obs.get('status')
            if status in ('AfterPullRequest', 'IncorrectPullRequestNumber'):
                out.append({'property': 'C12', 'msg':
                            'no hold is in place but the evaluation ended '
                            '%s' % status})
            if status == 'NothingToDo':
                pr1p = [p for p in post['prs'] if p['id'] == S][0]
                queued = any(b.startswith('q/w/%d/' % S) for b in h0)
                if pr1p['state'] == 'OPEN' and not queued:
                    out.append({'property': 'C12', 'msg':
                                'no hold is in place, the pull request is '
                                'open, but the evaluation did nothing'})
        return out, stats
    return mon


def c12_pairs(driver):
    """Pull requests between branches Bert-E does not handle get no comment,
    no branch, no pull request."""
    HANDLED_SRC = ('development', 'stabilization') + (
        'improvement', 'bugfix', 'feature', 'project', 'documentation',
        'design', 'dependabot', 'epic', 'bug')

    def kind_ok(name, kinds, versioned):
        head, _, rest = name.partition('/')
        if head not in kinds or not rest:
            return False
        if head in versioned:
            parts = rest.split('.')
            want = {'development': (1, 2), 'stabilization': (3,),
                    'hotfix': (3,)}[head]
            return len(parts) in want and all(p.isdigit() for p in parts)
        return True

    def mon(w, pre, ev, obs, post):
        if ev[0] != 'seq' or ev[3][0] != 'open_raw':
            return [], {}
        src, dst = ev[3][1], ev[3][2]
        handled = kind_ok(src, HANDLED_SRC,
                          ('development', 'stabilization')) and \
            kind_ok(dst, ('development', 'stabilization', 'hotfix'),
                    ('development', 'stabilization', 'hotfix'))
        stats = {'c12_pairs': 1,
                 'c12_pairs_handled' if handled else 'c12_pairs_foreign': 1}
        if handled:
            return [], stats
        out = []
        h0, h1 = dict(heads(pre)), heads(post)
        expect = dict(h0)
        for b in (src, dst):
            if b not in expect and b in h1:
                expect[b] = h1[b]
        if h1 != expect:
            diff = sorted(set(h1) ^ set(expect)) + sorted(
                b for b in h1 if b in expect and h1[b] != expect[b])
            out.append({'property': 'C12', 'msg':
                        'pull request %s -> %s is none of Bert-E\'s business '
                        'but branches changed: %s' % (src, dst, diff)})
        if post['comments']:
            out.append({'property': 'C12', 'msg':
                        'pull request %s -> %s is none of Bert-E\'s business '
                        'but it commented: %r (job status %s)' % (
                            src, dst, post['comments'][0][2][:70],
                            obs.get('status'))})
        if len(post['prs']) != 1:
            out.append({'property': 'C12', 'msg':
                        'pull request %s -> %s: %d pull requests afterwards'
                        % (src, dst, len(post['prs']))})
        return out, stats
    return mon


def vnums(name):
    ver = name.split('/', 1)[1]
    parts = ver.split('.')
    if all(x.isdigit() for x in parts):
        return tuple(int(x) for x in parts)
    return None


def cascade_problems(w, state):
    """Independent well-formedness of the destination branches: C01 chain,
    at most one stabilization per x.y, with its development branch, and not
    already released (no tag x.y.z' with z' >= z)."""
    d = dests(state)
    out = ['%s not in %s' % p for p in chain_breaks(w, d)]
    t = tags(state)
    stabs = {}
    for b in d:
        if b.startswith('stabilization/'):
            v = vnums(b)
            stabs.setdefault(v[:2], []).append(v)
    for xy, lst in stabs.items():
        if len(lst) > 1:
            out.append('two stabilization branches for %d.%d' % xy)
        if 'development/%d.%d' % xy not in d:
            out.append('stabilization/%s without development/%d.%d' % (
                '.'.join(map(str, lst[0])), xy[0], xy[1]))
        for name in t:
            tv = name[1:] if name.startswith('v') else name
            ps = tv.split('.')
            if len(ps) in (3, 4) and all(x.isdigit() for x in ps):
                if (int(ps[0]), int(ps[1])) == xy and \
                        int(ps[2]) >= lst[0][2]:
                    out.append('stabilization/%s already released (tag %s)'
                               % ('.'.join(map(str, lst[0])), name))
    return out


def queued_ids(state, version=None):
    out = []
    for b in heads(state):
        if b.startswith('q/w/'):
            parts = b.split('/')
            if version is None or parts[3] == version or \
                    parts[3].startswith(version + '.'):
                if int(parts[2]) not in out:
                    out.append(int(parts[2]))
    return out


def c20(driver):
    """Branch and queue admin jobs keep the repository well-formed or do
    nothing."""
    def same_remote(pre, post):
        return pre['refs'] == post['refs']

    def mon(w, pre, ev, obs, post):
        kind = ev[0]
        if kind not in ('create_branch', 'delete_branch', 'rebuild_queues',
                        'delete_queues'):
            return [], {}
        status = obs.get('status')
        stats = {'c20_jobs': 1, 'c20_%s_%s' % (kind, status): 1}
        out = []
        ok = status == 'JobSuccess'
        h0, h1 = heads(pre), heads(post)

        def bad(fp, msg):
            out.append({'property': 'C20', 'fingerprint': fp, 'msg':
                        '%s (event %s, status %s)' % (msg, ev, status)})
        if kind == 'create_branch':
            name = ev[1]
            if not ok:
                if not same_remote(pre, post):
                    bad('create-refused-but-changed',
                        'create_branch refused but the remote changed: %s' %
                        sorted(set(map(str, post['refs'].items())) ^
                               set(map(str, pre['refs'].items()))))
                return out, stats
            if name not in h1:
                bad('create-success-no-branch', 'JobSuccess but %s does not '
                    'exist' % name)
                return out, stats
            probs = cascade_problems(w, post)
            if probs and not cascade_problems(w, pre):
                bad('create-breaks-cascade:%s' % name,
                    'created %s but the repository is now ill-formed: %s' % (
                        name, probs))
            ver = name.split('/', 1)[1]
            if ver in tags(pre):
                bad('create-archived:%s' % name,
                    '%s was created although archive tag %s exists' % (
                        name, ver))
            if driver.config.queue and name.startswith('development/') and \
                    queued_ids(pre):
                newest = max((dest_sort_key(b) for b in dests(pre)
                              if b.startswith('development/')))
                if dest_sort_key(name) < newest:
                    bad('create-older-with-queued-prs:%s' % name,
                        '%s (older than the newest development branch) was '
                        'created while pull requests %s are queued' % (
                            name, queued_ids(pre)))
            extra = {b for b in h1 if b not in h0 and b != name and
                     not b.startswith('q/')}
            if extra:
                bad('create-extra-refs', 'create_branch also created %s' %
                    sorted(extra))
        elif kind == 'delete_branch':
            name = ev[1]
            if name not in h0:
                if not same_remote(pre, post):
                    bad('delete-missing-changed', 'delete of a missing '
                        'branch changed the remote')
                return out, stats
            ver = name.split('/', 1)[1]
            has_queued = bool(driver.config.queue and queued_ids(pre, ver))
            has_stab = name.startswith('development/') and any(
                b.startswith('stabilization/' + ver + '.') for b in h0)
            # the archive tag of an earlier deletion already exists: the job
            # cannot archive the tip and refuses (also for a re-created
            # hotfix branch, whose tag is <version>.archived_hotfix_branch)
            archived = (ver + '.archived_hotfix_branch'
                        if name.startswith('hotfix/') else ver) in tags(pre)
            must_refuse = has_queued or has_stab
            if ok:
                tname = ver + '.archived_hotfix_branch' \
                    if name.startswith('hotfix/') else ver
                t1 = tags(post)
                if must_refuse:
                    bad('delete-should-refuse:%s' % name,
                        '%s deleted although %s' % (
                            name, 'pull requests are queued on it'
                            if has_queued else 'its stabilization branch '
                            'is alive'))
                if name in h1:
                    bad('delete-success-still-there', '%s still exists' %
                        name)
                if tname not in t1 or w.git(
                        'rev-parse', t1[tname] + '^{commit}') != h0[name]:
                    bad('delete-no-archive-tag:%s' % name,
                        '%s deleted without archive tag %s on its tip' % (
                            name, tname))
                others = {b for b in set(h0) | set(h1)
                          if h0.get(b) != h1.get(b) and b != name and
                          b != 'q/' + ver}
                if others:
                    bad('delete-touches-others', 'delete_branch also '
                        'changed %s' % sorted(others))
            else:
                if not same_remote(pre, post):
                    bad('delete-refused-but-changed:%s' % name,
                        'delete_branch refused but the remote changed: %s'
                        % sorted(set(map(str, post['refs'].items())) ^
                                 set(map(str, pre['refs'].items()))))
                if not must_refuse and not archived:
                    bad('delete-refused-without-reason:%s' % (
                        'queue-branch-exists' if 'q/' + ver in h0
                        else name),
                        '%s has no queued pull request and no live '
                        'stabilization branch but delete_branch refused '
                        '(%s)' % (name, obs.get('details')))
        else:
            removed = set(h0) - set(h1)
            changed = {b for b in h1 if h0.get(b) != h1[b]}
            if any(not b.startswith('q/') for b in removed | changed) or \
                    tags(pre) != tags(post):
                bad('queue-job-touches-others',
                    '%s changed refs outside q/*: %s' % (
                        kind, sorted(b for b in removed | changed
                                     if not b.startswith('q/'))))
            if ok and driver.config.queue and any(
                    b.startswith('q/') for b in h1):
                bad('queue-job-left-queues', '%s left %s' % (
                    kind, sorted(b for b in h1 if b.startswith('q/'))))
            if kind == 'rebuild_queues' and ok:
                want = queued_ids(pre)
                got = [d[1] for d in post['pending']
                       if d[0] == 'PullRequestJob']
                if sorted(got) != sorted(want) or \
                        len(post['pending']) != len(got):
                    bad('rebuild-wrong-jobs', 'rebuild_queues re-submitted '
                        '%s, queued pull requests were %s' % (
                            post['pending'], want))
                else:
                    # queue order = order of entry (by ancestry of the
                    # queue commits on a shared version)
                    for i, a in enumerate(got):
                        for b in got[i + 1:]:
                            qa = [r for r in h0 if r.startswith(
                                'q/w/%d/' % a)]
                            qb = [r for r in h0 if r.startswith(
                                'q/w/%d/' % b)]
                            for ra in qa:
                                for rb in qb:
                                    if ra.split('/')[3] == rb.split('/')[3] \
                                            and h0[ra] != h0[rb] and \
                                            w.is_ancestor(h0[rb], h0[ra]):
                                        bad('rebuild-wrong-order',
                                            'rebuild_queues re-submitted '
                                            '%d before %d, which entered '
                                            'the queue first' % (a, b))
        return out, stats
    return mon


def driver_history(w, driver):
    return []


REGISTRY = {'c01': c01, 'c03': c03, 'c06': c06, 'c08': c08, 'c19': c19,
            'c15': c15, 'c12': c12, 'c12_pairs': c12_pairs, 'c20': c20}
