"""SYS engine, part 2: events (the alphabet) and how they are applied to a
world.  An event is a JSON-able list: [name, arg, ...].

apply(world, ev) returns an observation dict:
  status   job status (class name of the exception that ended the job, '' on
           plain return, None for non-job events)
  details  job.details
  cmds     the recorded shell commands of the job (pushes carry the remote
           refs before/after)
  crashed  True if the job was crash-stopped by the fault layer
"""
import os
import shutil
import subprocess

from .world import AUTHOR, ROBOT, Crash


def sanitize(name):
    return name.replace('/', '_').replace('.', '_')


# ---------------------------------------------------------------------------
# user / CI events
# ---------------------------------------------------------------------------
def ev_open(w, src, dst, author=AUTHOR, path=None, content=None, base=None):
    """Create branch `src` (one commit adding a file) off `dst` (or `base`)
    and open a pull request src -> dst."""
    tip = w.refs()[base or dst]
    path = path or ('f_' + sanitize(src) + '_0')
    content = content if content is not None else (src + ' 0\n')
    sha = w.commit_file(tip, path, content, 'work on %s' % src, author)
    w.set_ref(src, sha)
    w.host_repo(author).create_pull_request(
        title='PR ' + src, name='name', src_branch=src, dst_branch=dst,
        close_source_branch=True, description='')


def ev_open_raw(w, src, dst, author=AUTHOR):
    """Open a pull request between two existing branches."""
    w.host_repo(author).create_pull_request(
        title='PR ' + src, name='name', src_branch=src, dst_branch=dst,
        close_source_branch=True, description='')


def ev_push(w, src, author=AUTHOR, path=None, content=None):
    tip = w.refs()[src]
    n = int(w.git('rev-list', '--count', tip))
    path = path or ('f_%s_%d' % (sanitize(src), n))
    content = content if content is not None else ('%s %d\n' % (src, n))
    sha = w.commit_file(tip, path, content, 'more work on %s (%d)' % (src, n),
                        author)
    w.set_ref(src, sha)


def _scratch(w, fn, user=AUTHOR):
    """Run fn(run) inside a throw-away clone of the remote."""
    d = os.path.join(w.tmp, 'scratch.%d' % os.getpid())
    shutil.rmtree(d, ignore_errors=True)
    env = dict(os.environ)
    env.update(w.user_env(user))

    def run(*args, check=True):
        p = subprocess.run(('git',) + args, cwd=d, env=env,
                           stdout=subprocess.PIPE, stderr=subprocess.STDOUT,
                           universal_newlines=True)
        if check and p.returncode:
            raise RuntimeError('%s: %s' % (args, p.stdout))
        return p.stdout.strip()
    subprocess.run(['git', 'clone', '-q', '--no-checkout', w.remote, d],
                   check=True, env=env, stdout=subprocess.DEVNULL,
                   stderr=subprocess.DEVNULL)
    try:
        return fn(run)
    finally:
        shutil.rmtree(d, ignore_errors=True)


def pr_of_src(w, src):
    for it in w.pr_items():
        if it.source['branch']['name'] == src and \
                it.author['username'] != ROBOT:
            return it
    return None


def ev_amend(w, src, author=AUTHOR):
    """Replace the tip commit of src by a different one (force-push)."""
    tip = w.refs()[src]
    parent = w.git('rev-parse', tip + '^')
    n = int(w.git('rev-list', '--count', tip))
    sha = w.commit_file(parent, 'f_%s_amended' % sanitize(src),
                        'amended %d\n' % n, 'amended work on %s' % src, author)
    w.set_ref(src, sha)


def ev_rebase(w, src, author=AUTHOR):
    """Rebase src on the current tip of its destination (force-push)."""
    dst = pr_of_src(w, src).destination['branch']['name']

    def fn(run):
        run('checkout', '-q', '-b', 'x', 'origin/' + src)
        run('rebase', '-q', 'origin/' + dst)
        run('push', '-q', '-f', 'origin', 'x:refs/heads/' + src)
    _scratch(w, fn, author)


def ev_merge_dst(w, src, author=AUTHOR):
    """The developer merges the destination branch into the source branch
    and resolves the conflict: a merge commit (source tip, destination tip)
    whose tree is the source's plus the destination's other files."""
    dst = pr_of_src(w, src).destination['branch']['name']
    refs = w.refs()
    stip, dtip = refs[src], refs[dst]
    idx = os.path.join(w.tmp, 'idx.%d' % os.getpid())
    if os.path.exists(idx):
        os.unlink(idx)
    env = dict(w.user_env(author), GIT_INDEX_FILE=idx)
    # destination tree first, then the source's own files on top ("ours")
    w.git('read-tree', dtip, env=env)
    base = w.git('merge-base', stip, dtip)
    for line in w.git('diff-tree', '-r', '--no-commit-id', base,
                      stip).splitlines():
        meta, path = line.split('\t', 1)
        mode, sha = meta.split()[1], meta.split()[3]
        if set(sha) == {'0'}:
            w.git('update-index', '--force-remove', path, env=env)
        else:
            w.git('update-index', '--add', '--cacheinfo',
                  '%s,%s,%s' % (mode, sha, path), env=env)
    tree = w.git('write-tree', env=env)
    os.unlink(idx)
    sha = w.git('commit-tree', tree, '-m',
                'more work on %s (merge of %s, conflict resolved)' % (
                    src, dst), '-p', stip, '-p', dtip, env=env)
    w.set_ref(src, sha)


def ev_rm_ref(w, branch):
    """Somebody deletes a branch on the remote by hand (e.g. an integration
    branch, as Bert-E's conflict message tells the author to do)."""
    if branch in w.heads():
        w.del_ref(branch)


def ev_reset_src(w, src):
    """Force-push src back to its first parent."""
    tip = w.refs()[src]
    w.set_ref(src, w.git('rev-parse', tip + '^'))


def ev_manual(w, branch, kind='commit', author=AUTHOR):
    """A developer commits on an integration branch: a plain commit on top of
    it, or (kind='merge') a merge commit of the destination branch."""
    tip = w.refs().get(branch)
    n = int(w.git('rev-list', '--count', tip)) if tip else 0
    if kind == 'commit':
        sha = w.commit_file(tip, 'manual_%s_%d' % (sanitize(branch), n),
                            'manual %d\n' % n, 'manual fix on ' + branch,
                            author)
    elif kind == 'merge':
        # a hand-made merge commit (conflict resolution): second parent =
        # the tip of the branch's destination
        ver = branch.split('/')[1]
        other = [b for b in w.heads() if b.split('/')[0] in (
            'development', 'stabilization') and b.split('/', 1)[1] == ver]
        sha = w.commit_file(tip, 'manual_merge_%s_%d' % (sanitize(branch),
                                                         n),
                            'resolved %d\n' % n,
                            'manual fix on %s (merge)' % branch, author,
                            extra_parents=[w.refs()[other[0]]])
    elif kind == 'resolve':
        # the author redoes the integration branch by hand, as Bert-E's
        # conflict message instructs: start from the destination branch,
        # merge the previous integration (or source) branch, resolve, push -f
        ver = branch.split('/')[1]
        src = branch.split('/', 2)[2]
        dst = [b for b in w.heads() if b.split('/')[0] in (
            'development', 'stabilization') and b.split('/', 1)[1] == ver][0]
        from .world import dest_sort_key
        prev = src
        for d in sorted((b for b in w.heads() if b.split('/')[0] in (
                'development', 'stabilization')), key=dest_sort_key):
            if d == dst:
                break
            cand = 'w/%s/%s' % (d.split('/', 1)[1], src)
            if cand in w.heads():
                prev = cand
        sha = w.commit_file(w.refs()[dst], 'manual_resolution_%s' %
                            sanitize(branch), 'resolved\n',
                            'manual fix on %s (conflict resolution)' % branch,
                            author, extra_parents=[w.refs()[prev]])
    elif kind == 'revert':
        # the change is not wanted on this version: a commit that brings the
        # tree of the integration branch back to its destination's tree (a
        # content-null forward port, like `git merge -s ours`)
        ver = branch.split('/')[1]
        dst = [b for b in w.heads() if b.split('/')[0] in (
            'development', 'stabilization', 'hotfix') and
            b.split('/', 1)[1] == ver][0]
        tree = w.git('rev-parse', w.refs()[dst] + '^{tree}')
        sha = w.git('commit-tree', tree, '-m',
                    'manual fix on %s (revert)' % branch, '-p', tip,
                    env=w.user_env(author))
    else:
        raise ValueError(kind)
    w.set_ref(branch, sha)


def controller(w, pr_id, user):
    return w.mock.PullRequestController(w.client(user), w.pr_item(pr_id))


def ev_approve(w, pr_id, user):
    controller(w, pr_id, user).approve()


def ev_unapprove(w, pr_id, user):
    controller(w, pr_id, user).dismiss(None)


def ev_request_changes(w, pr_id, user):
    controller(w, pr_id, user).request_changes()


def ev_participate(w, pr_id, user):
    controller(w, pr_id, user).update_participant(role='PARTICIPANT')


def ev_comment(w, pr_id, user, text):
    controller(w, pr_id, user).add_comment(text)


def ev_uncomment(w, pr_id, index):
    """Delete the index-th comment of the pull request."""
    cs = [c for c in w.mock.Comment.items if c.pull_request_id == pr_id]
    w.mock.Comment.items.remove(cs[index])


def ev_decline(w, pr_id, user=AUTHOR):
    controller(w, pr_id, user).decline()


def ev_ci(w, branch, status, key=None):
    sha = w.refs()[branch]
    w.host_repo(ROBOT).set_build_status(
        revision=sha, key=key or w.config.build_key, state=status)


def ev_ci_sha(w, sha, status, key=None):
    w.host_repo(ROBOT).set_build_status(
        revision=sha, key=key or w.config.build_key, state=status)


def int_tips(w, pr_id):
    """source branch + w/<v>/<src> branches of a pull request."""
    src = w.pr_item(pr_id).source['branch']['name']
    heads = w.heads()
    return [b for b in heads
            if b == src or (b.startswith('w/') and b.endswith('/' + src) and
                            b[2:-len(src) - 1].replace('.', '').isdigit())]


def ev_ci_int(w, pr_id, status):
    for b in int_tips(w, pr_id):
        ev_ci(w, b, status)


def ev_ci_q_all(w, status):
    for b in w.heads():
        if b.startswith('q/'):
            ev_ci(w, b, status)


def ev_ci_stale(w, branch, status='SUCCESSFUL'):
    """A report on the first parent of the tip: a commit that is no longer
    (or never was) the tip."""
    sha = w.git('rev-parse', w.refs()[branch] + '^')
    ev_ci_sha(w, sha, status)


# ---------------------------------------------------------------------------
# jobs
# ---------------------------------------------------------------------------
def run_job(w, make):
    """Run one job on the world's Bert-E through the real put_job /
    process_task.  Jobs already pending are kept aside and put back after,
    followed by whatever the job itself enqueued."""
    b = w.berte
    q = b.task_queue
    saved = list(q.queue)
    with q.mutex:
        q.queue.clear()
    job = make(b)
    w.cmd_log = []
    w.mut_log = []
    obs = {'crashed': False}
    try:
        b.put_job(job)
        b.process_task()
    except Crash:
        obs['crashed'] = True
    finally:
        obs['cmds'] = w.cmd_log
        obs['mut_ops'] = w.mut_log
        w.cmd_log = None
        w.mut_log = None
    newly = list(q.queue)
    with q.mutex:
        q.queue.clear()
        q.unfinished_tasks = 0
    for j in saved + newly:
        b.put_job(j)
    obs['status'] = job.status
    obs['details'] = job.details
    obs['job_type'] = type(job).__name__
    obs['enqueued'] = [w.job_descr(j) for j in newly]
    return obs


def ev_eval_pr(w, pr_id):
    from bert_e.job import PullRequestJob
    return run_job(w, lambda b: PullRequestJob(
        bert_e=b, pull_request=b.project_repo.get_pull_request(pr_id)))


def ev_eval_commit(w, branch):
    from bert_e.job import CommitJob
    sha = w.refs()[branch]
    return run_job(w, lambda b: CommitJob(bert_e=b, commit=sha))


def ev_eval_sha(w, sha):
    from bert_e.job import CommitJob
    return run_job(w, lambda b: CommitJob(bert_e=b, commit=sha))


def ev_run_pending(w, index=0):
    b = w.berte
    q = b.task_queue
    job = list(q.queue)[index]
    with q.mutex:
        q.queue.remove(job)
    return run_job(w, lambda b: job)


def _api_job(cls_path, **settings):
    mod, cls = cls_path.rsplit('.', 1)

    def make(b):
        import importlib
        c = getattr(importlib.import_module(mod), cls)
        return c(bert_e=b, settings=dict(settings), user='admin')
    return make


def ev_rebuild_queues(w):
    return run_job(w, _api_job('bert_e.jobs.rebuild_queues.RebuildQueuesJob'))


def ev_delete_queues(w):
    return run_job(w, _api_job('bert_e.jobs.delete_queues.DeleteQueuesJob'))


def ev_force_merge(w):
    return run_job(w, _api_job(
        'bert_e.jobs.force_merge_queues.ForceMergeQueuesJob'))


def ev_create_branch(w, name, branch_from=''):
    kw = {'branch': name}
    if branch_from:
        if branch_from.startswith('@'):   # "@<rev expression>" -> sha
            branch_from = w.git('rev-parse', branch_from[1:])
        kw['branch_from'] = branch_from
    return run_job(w, _api_job('bert_e.jobs.create_branch.CreateBranchJob',
                               **kw))


def ev_delete_branch(w, name):
    return run_job(w, _api_job('bert_e.jobs.delete_branch.DeleteBranchJob',
                               branch=name))


def ev_mkbranch(w, name, author=AUTHOR):
    """Create branch `name` (one commit on top of the first development
    branch) unless it exists."""
    refs = w.heads()
    if name in refs:
        return
    base = refs[sorted(b for b in refs if b.startswith('development/'))[0]]
    sha = w.commit_file(base, 'f_' + sanitize(name), name + '\n',
                        'work on %s' % name, author)
    w.set_ref(name, sha)


def ev_tag(w, name, branch):
    """A release manager pushes tag `name` on the tip of `branch`."""
    w.git('tag', name, w.refs()[branch])


def ev_seq(w, *evs):
    """Several events applied as one (macro event); the observation is the
    last one's."""
    res = None
    for e in evs:
        res = apply(w, e)
    return res


TABLE = {
    'seq': ev_seq, 'mkbranch': ev_mkbranch, 'tag': ev_tag,
    'open': ev_open, 'open_raw': ev_open_raw, 'push': ev_push,
    'amend': ev_amend, 'rebase': ev_rebase, 'reset_src': ev_reset_src,
    'merge_dst': ev_merge_dst, 'rm_ref': ev_rm_ref,
    'manual': ev_manual, 'approve': ev_approve, 'unapprove': ev_unapprove,
    'request_changes': ev_request_changes, 'participate': ev_participate,
    'comment': ev_comment, 'uncomment': ev_uncomment, 'decline': ev_decline,
    'ci': ev_ci, 'ci_sha': ev_ci_sha, 'ci_int': ev_ci_int,
    'ci_q_all': ev_ci_q_all, 'ci_stale': ev_ci_stale,
    'eval_pr': ev_eval_pr, 'eval_commit': ev_eval_commit,
    'eval_sha': ev_eval_sha, 'run_pending': ev_run_pending,
    'rebuild_queues': ev_rebuild_queues, 'delete_queues': ev_delete_queues,
    'force_merge': ev_force_merge, 'create_branch': ev_create_branch,
    'delete_branch': ev_delete_branch,
}
JOB_EVENTS = {'eval_pr', 'eval_commit', 'eval_sha', 'run_pending',
              'rebuild_queues', 'delete_queues', 'force_merge',
              'create_branch', 'delete_branch'}


def is_job(ev):
    if ev[0] == 'seq':
        return is_job(ev[-1])
    return ev[0] in JOB_EVENTS


def apply(w, ev):
    fn = TABLE[ev[0]]
    res = fn(w, *ev[1:])
    if res is None:
        res = {'status': None, 'cmds': [], 'crashed': False}
    res['event'] = list(ev)
    return res
