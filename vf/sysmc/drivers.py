"""SYS engine, part 4: drivers = (configuration, initial events, enabled
events, monitors, bounds).  A driver is made from a JSON-able spec so that it
can be rebuilt inside every worker process and inside replays."""
import json

from . import monitors as M
from .world import Config, ROBOT, AUTHOR, ADMIN, PEER1, PEER2

BYPASS_REVIEW = ['bypass_author_approval', 'bypass_peer_approval',
                 'bypass_leader_approval', 'bypass_jira_check']
_CACHE = {}


def make(spec):
    key = json.dumps(spec, sort_keys=True)
    d = _CACHE.get(key)
    if d is None:
        cls = REGISTRY[spec['driver']]
        d = _CACHE[key] = cls(spec)
    return d


def conflict_init(dst='development/4.3', clash='file_development_5.1',
                  srcs=('bugfix/TEST-1', 'bugfix/TEST-2')):
    """Two pull requests on `dst` that both write the file which the next
    destination branch created: each conflicts when forward-ported, and the
    second conflicts with the first once that one is merged.  Use with spec
    key 'resolve': True (the developer resolves by hand)."""
    return [['open', s, dst, AUTHOR, clash, 'version of %s\n' % s]
            for s in srcs]


def parent_prs(state, only_open=True):
    return [p for p in state['prs'] if p['author'] != ROBOT and
            (not only_open or p['state'] == 'OPEN')]


def child_prs(state, only_open=True):
    return [p for p in state['prs'] if p['author'] == ROBOT and
            (not only_open or p['state'] == 'OPEN')]


def heads_of(state):
    return {k: v for k, v in state['refs'].items()
            if not k.startswith('refs/')}


def int_branches(state, src):
    hs = heads_of(state)
    return [b for b in hs if b.startswith('w/') and b.endswith('/' + src)]


def status_in(state, sha, key):
    for r, k, v in state['revisions']:
        if r == sha and k == key:
            return v
    return 'NOTSTARTED'


class Driver:
    """Base class.  spec keys: driver, config (dict), monitors (list of
    names), max_depth, plus driver-specific parameters."""
    max_depth = None

    def __init__(self, spec):
        self.spec = spec
        self.name = spec.get('name', spec['driver'])
        self.config = Config(**spec.get('config', {}))
        self.max_depth = spec.get('max_depth', self.max_depth)
        self._monitors = [M.REGISTRY[m](self) for m in spec.get('monitors',
                                                               [])]

    def monitors(self):
        return self._monitors

    def init_events(self):
        return [list(e) for e in self.spec.get('init', [])]

    def enabled(self, w, state):
        raise NotImplementedError


class Flow(Driver):
    """Merge flow: evaluations, CI reports, pushes, admin jobs.

    spec parameters:
      statuses_q : statuses CI may report on queue tips    (default S,F)
      statuses_int: statuses CI may report on integration tips (default S)
      pushes     : max extra commits per source branch (default 1)
      admin      : list of admin events to include
      decline, rebase, stale: booleans
      late_open  : list of 'open' events that may happen once, at any time
    """
    def __init__(self, spec):
        super().__init__(spec)
        p = spec
        self.statuses_q = p.get('statuses_q', ['SUCCESSFUL', 'FAILED'])
        self.statuses_int = p.get('statuses_int', ['SUCCESSFUL'])
        self.pushes = p.get('pushes', 1)
        self.admin = p.get('admin', [])
        self.decline = p.get('decline', False)
        self.rebase = p.get('rebase', False)
        self.stale = p.get('stale', False)
        self.late_open = [list(e) for e in p.get('late_open', [])]
        self.eval_children = p.get('eval_children', False)
        self.eval_int_commits = p.get('eval_int_commits', False)
        self.comments = [list(c) for c in p.get('comments', [])]
        self.per_q_ci = p.get('per_q_ci', True)
        self.approvers = p.get('approvers', [])
        self.change_requesters = p.get('change_requesters', [])

    def enabled(self, w, state):
        evs = []
        hs = heads_of(state)
        key = self.config.build_key
        srcs = set()
        for pr in parent_prs(state):
            k, src = pr['id'], pr['src']
            srcs.add(src)
            evs.append(['eval_pr', k])
            tips = [src] + int_branches(state, src)
            if src not in hs:
                continue
            for s in self.statuses_int:
                if any(status_in(state, hs[b], key) != s for b in tips):
                    evs.append(['ci_int', k, s])
            if self.pushes and self._can_push(w, hs[src]):
                evs.append(['push', src])
            if self.rebase and not w.is_ancestor(hs[pr['dst']], hs[src]):
                evs.append(['rebase', src])
            if self.decline:
                evs.append(['decline', k])
            if self.stale:
                evs.append(['ci_stale', src])
            if self.eval_int_commits:
                for b in tips:
                    evs.append(['eval_commit', b])
            if self.spec.get('delete_w'):
                # the author deletes an integration branch by hand
                for b in tips[1:]:
                    if b in hs:
                        evs.append(['rm_ref', b])
            for kind in self.spec.get('manual', []):
                for b in tips[1:]:
                    if b in hs and not w.git(
                            'log', '-1', '--format=%s', hs[b]).startswith(
                                'manual fix'):
                        evs.append(['manual', b, kind])
            if self.spec.get('resolve') and any(
                    c[0] == k and c[1] == ROBOT and 'onflict' in c[2]
                    for c in state['comments']):
                # Bert-E reported a conflict: the developer creates (or
                # redoes) the first missing integration branch by hand
                from .faults import targets_of
                from .monitors import dests
                for t in targets_of(pr['dst'], list(dests(state)))[1:]:
                    b = 'w/%s/%s' % (t.split('/', 1)[1], src)
                    if b not in hs:
                        evs.append(['manual', b, 'resolve'])
                        break
                if not w.is_ancestor(hs[pr['dst']], hs[src]):
                    # ... or merges the destination into the source branch
                    evs.append(['merge_dst', src])
            for cm in self.comments:
                user, text = cm[0], cm[1]
                limit = cm[2] if len(cm) > 2 else 1
                if sum(1 for c in state['comments']
                       if c[0] == k and c[1] == user and
                       c[2] == text) < limit:
                    evs.append(['comment', k, user, text])
            for user in self.approvers:
                if not any(u == user and a for u, a, _ in
                           pr['participants']):
                    evs.append(['approve', k, user])
            for user in self.change_requesters:
                if not any(u == user and c for u, _, c in
                           pr['participants']):
                    evs.append(['request_changes', k, user])
        if self.decline:
            # a declined PR can still be evaluated (cleanup)
            for pr in parent_prs(state, only_open=False):
                if pr['state'] == 'DECLINED':
                    evs.append(['eval_pr', pr['id']])
        if self.eval_children:
            for pr in child_prs(state):
                evs.append(['eval_pr', pr['id']])
        if self.spec.get('decline_children'):
            # somebody declines an integration pull request by hand
            for pr in child_prs(state):
                evs.append(['decline', pr['id']])
        qs = sorted(b for b in hs if b.startswith('q/'))
        qmaster = [b for b in qs if not b.startswith('q/w/')]
        if qs:
            for s in self.statuses_q:
                if any(status_in(state, hs[b], key) != s for b in qs):
                    evs.append(['ci_q_all', s])
            if self.per_q_ci:
                for b in qs:
                    if b.startswith('q/w/'):
                        for s in self.statuses_q:
                            if s != 'SUCCESSFUL' and \
                                    status_in(state, hs[b], key) != s:
                                evs.append(['ci', b, s])
            if qmaster:
                evs.append(['eval_commit', qmaster[0]])
        for i, _ in enumerate(state['pending']):
            evs.append(['run_pending', i])
        for ev in self.late_open:
            if ev[1] not in hs and ev[2] in hs and not any(
                    p['src'] == ev[1] for p in state['prs']):
                evs.append(ev)
        for a in self.admin:
            evs.append(list(a))
        for t in self.spec.get('tags', []):
            if 'refs/tags/' + t[1] not in state['refs'] and t[2] in hs:
                evs.append(list(t))
        return evs

    def _can_push(self, w, tip):
        subject = w.git('log', '-1', '--format=%s', tip)
        if subject.startswith('work on'):
            return True
        if subject.startswith('more work on'):
            n = int(w.git('rev-list', '--count', '--grep=^more work on',
                          tip))
            return n < self.pushes
        return False


class FlowFaults(Flow):
    """FLOW plus deviations inside every job (spec['faults'] in
    {'c02', 'c08'})."""
    def plan_deviations(self, w, snap, ev, res):
        from . import faults
        return getattr(faults, self.spec.get('faults', 'c02') + '_plan')(
            self, w, snap, ev, res)

    def run_deviation(self, w, snap, ev, dev, ctx):
        from . import faults
        return getattr(faults, self.spec.get('faults', 'c02') + '_run')(
            self, w, snap, ev, dev, ctx)


class Repeat(Flow):
    """FLOW plus, on every job transition, the same evaluation repeated
    (C10)."""
    def plan_deviations(self, w, snap, ev, res):
        from . import faults
        return faults.c10_plan(self, w, snap, ev, res)

    def run_deviation(self, w, snap, ev, dev, ctx):
        from . import faults
        return faults.c10_run(self, w, snap, ev, dev, ctx)


class Child(Flow):
    """FLOW with events on child pull requests and integration commits,
    plus the redirect differential of C19."""
    def plan_deviations(self, w, snap, ev, res):
        from . import faults
        return faults.c19_plan(self, w, snap, ev, res)

    def run_deviation(self, w, snap, ev, dev, ctx):
        from . import faults
        return faults.c19_run(self, w, snap, ev, dev, ctx)


class Reset(Driver):
    """C15: after integration branches exist, every sequence (<= seq_len)
    of source / destination / manual-commit operations, then `reset` or
    `force_reset` and the evaluation that executes it, then one more
    evaluation."""
    SRC1, SRC2 = 'bugfix/TEST-1', 'bugfix/TEST-2'

    def __init__(self, spec):
        super().__init__(spec)
        self.seq_len = spec.get('seq_len', 2)
        self.ops = spec.get('ops')
        self.other = spec.get('other_pr', 2)

    def enabled(self, w, state):
        n_init = len(self.init_events())
        pos = w.tick - n_init
        pr1 = [c for c in state['comments'] if c[0] == 1]
        nreset = sum(1 for c in pr1 if c[1] != ROBOT and 'reset' in c[2])
        if nreset:
            evs = [['eval_pr', 1]]
            if self.spec.get('double_reset') and nreset == 1 and \
                    pr1[-1][1] == ROBOT and 'Reset complete' in pr1[-1][2]:
                # the same command again, nothing said in between
                for cmd in ('reset', 'force_reset'):
                    evs.append(['seq', ['comment', 1, AUTHOR, '@robot ' + cmd],
                                ['eval_pr', 1]])
            return evs
        evs = []
        hs = heads_of(state)
        if pos < self.seq_len and self.SRC1 in hs:
            ws = sorted(b for b in int_branches(state, self.SRC1))
            pr1s = [p for p in state['prs'] if p['id'] == 1][0]
            ops = [['push', self.SRC1], ['eval_pr', 1],
                   ['seq', ['ci_int', self.other, 'SUCCESSFUL'],
                    ['eval_pr', self.other]]]
            if not w.is_ancestor(hs[self.SRC1], hs[pr1s['dst']]):
                # the source still has commits of its own
                ops += [['amend', self.SRC1], ['reset_src', self.SRC1]]
            if not w.is_ancestor(hs[pr1s['dst']], hs[self.SRC1]):
                ops.append(['rebase', self.SRC1])
            for b in ws:
                ops.append(['manual', b, 'commit'])
            if ws:
                ops.append(['manual', ws[0], 'merge'])
                ops.append(['manual', ws[-1], 'resolve'])
            if self.ops:
                ops = [o for o in ops if o[0] in self.ops or
                       (o[0] == 'seq' and 'merge_pr2' in self.ops)]
            evs += ops
        for cmd in ('reset', 'force_reset'):
            evs.append(['seq', ['comment', 1, AUTHOR, '@robot ' + cmd],
                        ['eval_pr', 1]])
        return evs


class Hold(Driver):
    """C12: a fully approved pull request 1 combined with one hold (spec
    'hold': comment text), added and removed at every position."""
    SRC1 = 'bugfix/TEST-1'

    def enabled(self, w, state):
        evs = []
        hs = heads_of(state)
        key = self.config.build_key
        hold = self.spec['hold']
        S = self.spec.get('subject', 1)
        DEP = self.spec.get('dependency', 2)
        pr1 = [p for p in state['prs'] if p['id'] == S][0]
        SRC1 = pr1['src']
        if pr1['state'] == 'OPEN':
            evs.append(['eval_pr', S])
            tips = [SRC1] + int_branches(state, SRC1)
            if any(status_in(state, hs[b], key) != 'SUCCESSFUL'
                   for b in tips if b in hs):
                evs.append(['ci_int', S, 'SUCCESSFUL'])
            if self.spec.get('decline', True):
                evs.append(['decline', S])
        elif pr1['state'] == 'DECLINED':
            evs.append(['eval_pr', S])
        elif self.spec.get('eval_merged', True):
            evs.append(['eval_pr', S])
        qmaster = sorted(b for b in hs if b.startswith('q/') and
                         not b.startswith('q/w/'))
        if qmaster:
            qs = [b for b in hs if b.startswith('q/')]
            if any(status_in(state, hs[b], key) != 'SUCCESSFUL' for b in qs):
                evs.append(['ci_q_all', 'SUCCESSFUL'])
            evs.append(['eval_commit', qmaster[0]])
        mine = [i for i, c in enumerate(
            [c for c in state['comments'] if c[0] == S])
            if c[1] == AUTHOR and c[2] == hold]
        if not mine:
            evs.append(['comment', S, AUTHOR, hold])
        for i in mine:
            evs.append(['uncomment', S, i])
        # lifting a dependency on pull request 2 by merging it
        pr2 = [p for p in state['prs'] if p['id'] == DEP]
        if pr2 and pr2[0]['state'] == 'OPEN' and \
                self.spec.get('merge_pr2', False):
            if self.config.queue:
                evs.append(['seq', ['eval_pr', DEP],
                            ['ci_int', DEP, 'SUCCESSFUL'], ['eval_pr', DEP],
                            ['ci_q_all', 'SUCCESSFUL'], ['eval_pr', DEP]])
            else:
                evs.append(['seq', ['eval_pr', DEP],
                            ['ci_int', DEP, 'SUCCESSFUL'], ['eval_pr', DEP]])
        return evs


class Pairs(Driver):
    """C12, second part: one pull request per (source, destination) name
    pair, evaluated once from the initial state."""
    def enabled(self, w, state):
        if state['prs']:
            return []
        evs = []
        for src in self.spec['sources']:
            for dst in self.spec['destinations']:
                if src == dst:
                    continue
                evs.append(['seq', ['mkbranch', src], ['mkbranch', dst],
                            ['open_raw', src, dst], ['eval_pr', 1]])
        return evs


class Admin(Flow):
    """C20: FLOW states (0, 1, 2 queued pull requests, after a queue merge)
    x every admin job of spec['admin_jobs'].  A successful create/delete
    branch ends the history."""
    def __init__(self, spec):
        super().__init__(spec)
        from .world import LAYOUTS
        self.layout_dests = {b for b, _ in
                             LAYOUTS[self.config.layout]['branches']}

    def enabled(self, w, state):
        from .monitors import dests
        if set(dests(state)) != self.layout_dests and \
                not self.spec.get('continue_after_admin'):
            return []          # a branch was created or deleted: terminal
        if state['pending']:
            return [['run_pending', 0]]
        evs = super().enabled(w, state)
        for job in self.spec.get('admin_jobs', []):
            evs.append(list(job))
        return evs


class Script(Driver):
    """A fixed history (spec['script']) followed event by event; deviations
    of kind spec['faults'] on the job transitions listed in
    spec['fault_steps'] (default: all)."""
    def enabled(self, w, state):
        # the position in the script is the number of events applied so far;
        # it is recovered from the world's tick (init events included)
        pos = w.tick - len(self.init_events())
        script = self.spec['script']
        if 0 <= pos < len(script):
            return [list(script[pos])]
        return []

    def plan_deviations(self, w, snap, ev, res):
        from . import faults
        steps = self.spec.get('fault_steps')
        pos = w.tick - len(self.init_events()) - 1
        if steps is not None and pos not in steps:
            return {'devs': [], 'ctx': {}, 'stats': {}}
        return getattr(faults, self.spec['faults'] + '_plan')(
            self, w, snap, ev, res)

    def run_deviation(self, w, snap, ev, dev, ctx):
        from . import faults
        return getattr(faults, self.spec['faults'] + '_run')(
            self, w, snap, ev, dev, ctx)


REGISTRY = {'flow': Flow, 'flow_faults': FlowFaults, 'repeat': Repeat,
            'script': Script, 'child': Child, 'reset': Reset, 'hold': Hold,
            'pairs': Pairs, 'admin': Admin}
