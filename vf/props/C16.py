"""C16 - the robot's credentials never leak into logs, comments or job
reports.

(a) SYS + fault layer: for every shell command of every kind of job, the
    command fails (exit 128) or hangs (timeout) while printing the clone URL
    with credentials, at DEBUG and INFO; every output channel is searched
    for the password in raw and URL-quoted form.
(b) ENUM over the GitHub authentication flows with a scripted HTTP session
    (module C16b)."""
from ..sysmc import check
from ..sysmc.drivers import BYPASS_REVIEW
from ..sysmc.world import AUTHOR

PROP = 'C16'
PR1, PR2 = 'bugfix/TEST-1', 'bugfix/TEST-2'
PASSWORDS = ['p@ss: w/rd?&=x +y', 'plainpassword', 'a\'b"c $(x) ;|',
             'pässwörd€', 'correct horse']


def spec(name, script, queue, level, password, fault_steps=None,
         flavour='github'):
    return {'driver': 'script', 'faults': 'c16', 'name': name,
            'config': {'layout': 'D2', 'queue': queue, 'skip_queue': False,
                       'options': BYPASS_REVIEW, 'cred': True,
                       'password': password, 'log_level': level,
                       'cred_flavour': flavour},
            'init': [['open', PR1, 'development/4.3']],
            'script': script, 'fault_steps': fault_steps,
            'monitors': [], 'max_depth': len(script) + 1}


QUEUE_SCRIPT = [['eval_pr', 1], ['ci_int', 1, 'SUCCESSFUL'], ['eval_pr', 1],
                ['eval_commit', 'q/5.1']]
NOQ_SCRIPT = [['eval_pr', 1], ['comment', 1, AUTHOR, '@robot reset'],
              ['eval_pr', 1], ['eval_pr', 1],
              ['ci_int', 1, 'SUCCESSFUL'], ['eval_pr', 1]]
DECLINE_SCRIPT = [['eval_pr', 1], ['decline', 1], ['eval_pr', 1]]
ADMIN_SCRIPT = [['eval_pr', 1], ['ci_int', 1, 'SUCCESSFUL'], ['eval_pr', 1],
                ['rebuild_queues'], ['run_pending', 0], ['delete_queues'],
                ['create_branch', 'development/10.0'],
                ['delete_branch', 'development/10.0']]


def specs(tier):
    if tier == 'quick':
        return [spec('c16-queue-DEBUG', QUEUE_SCRIPT, True, 'DEBUG',
                     PASSWORDS[0]),
                spec('c16-noq-INFO', NOQ_SCRIPT, False, 'INFO', PASSWORDS[0],
                     fault_steps=[2, 5], flavour='bitbucket')]
    out = []
    for pw_i, pw in enumerate(PASSWORDS):
        for level in ('DEBUG', 'INFO'):
            tag = '%s-pw%d' % (level, pw_i)
            out.append(spec('c16-queue-' + tag, QUEUE_SCRIPT, True, level,
                            pw))
            out.append(spec('c16-noq-' + tag, NOQ_SCRIPT, False, level, pw))
            if pw_i == 0:
                out.append(spec('c16-noq-bb-' + tag, NOQ_SCRIPT, False, level,
                                pw, flavour='bitbucket'))
                out.append(spec('c16-decline-' + tag, DECLINE_SCRIPT, False,
                                level, pw))
                out.append(spec('c16-admin-' + tag, ADMIN_SCRIPT, True,
                                level, pw))
    return out


def run(tier, seed, workers=None):
    cr = check.run_specs(
        PROP, specs(tier), seed, workers=workers, level='fault_enumeration',
        xcheck=1, nontrivial_stat='c16_deviations',
        rule='scripted histories covering each kind of job (first '
             'evaluation creating integration branches and PRs, queuing, '
             'queue merge, direct merge, reset, decline, queue admin jobs, '
             'create/delete branch); for every shell command index of every '
             'job: fail (exit 128, URL with credentials on stdout+stderr) and '
             'hang (timeout, URL on stdout, original command text kept on '
             'the command line); channels searched: formatted log records '
             'incl. tracebacks, fd 1/2, job status/details/as_json, '
             '/api/jobs payload, status page (html, txt), comments; '
             'distinct_nontrivial = fault runs',
        assumptions=['the clone URL is the one the real GitHub / Bitbucket '
                     'Repository.git_url builds from the password, mapped to '
                     'the local bare repository with url.<path>.insteadOf',
                     'sentinels: raw, quote_plus and quote forms of the '
                     'password'])
    cr.coverage['evaluations'] = cr.coverage['transitions'] + \
        cr.coverage['monitor_stats'].get('c16_deviations', 0)
    try:
        from . import C16b
    except ImportError:
        C16b = None
    if C16b is not None:
        C16b.extend(cr, tier, seed, workers)
    return cr


def replay(data):
    if data.get('engine') == 'enum':
        from . import C16b
        return C16b.replay(data)
    return check.replay_sys(data, {PROP})
