"""C02 - a changeset lands on all of its target branches or none, even across
crashes.  SYS exploration + deviation layer: for every mutating transition of
the FLOW graph, every crash point between remote-mutating operations and every
single rejected ref of every push; recovery by re-delivery to a fresh
Bert-E."""
from ..sysmc import check
from ..sysmc.drivers import BYPASS_REVIEW, conflict_init

PROP = 'C02'
PR1, PR2 = 'bugfix/TEST-1', 'bugfix/TEST-2'


def spec(name, layout, dst1, dst2, queue=True, skip=False, depth=None, **kw):
    s = {'driver': 'flow_faults', 'faults': 'c02', 'name': name,
         'config': {'layout': layout, 'queue': queue, 'skip_queue': skip,
                    'options': BYPASS_REVIEW},
         'init': [['open', PR1, dst1], ['open', PR2, dst2]],
         'monitors': [], 'pushes': 0, 'per_q_ci': False,
         'statuses_q': ['SUCCESSFUL'], 'max_depth': depth}
    s.update(kw)
    return s


def queued_spec(layout, dst1, dst2, depth, order=(1, 2)):
    """Starts with both pull requests in the queue (entered in `order`); CI
    then reports on the queue as a whole or fails single queue branches."""
    return spec('c02-q-%s-queued%s' % (
        layout, '' if dst1 == dst2 else '-%s-%d%d' % (
            dst2.split('/')[1], order[0], order[1])),
        layout, dst1, dst2, depth=depth,
                config={'layout': layout, 'queue': True, 'skip_queue': False,
                        'options': BYPASS_REVIEW + ['bypass_build_status']},
                init=[['open', PR1, dst1], ['open', PR2, dst2],
                      ['eval_pr', order[0]], ['eval_pr', order[1]]],
                statuses_int=[], statuses_q=['SUCCESSFUL', 'FAILED'],
                per_q_ci=True)


def behind_failed_spec(depth):
    """Starts with one pull request in the queue whose queue builds FAILED;
    the other one then enters the queue behind it (a queue reset would let
    it overtake)."""
    return spec('c02-q-D2-behind-failed', 'D2', 'development/4.3',
                'development/5.1', depth=depth,
                init=[['open', PR1, 'development/4.3'],
                      ['open', PR2, 'development/5.1'],
                      ['eval_pr', 1], ['ci_int', 1, 'SUCCESSFUL'],
                      ['ci_int', 2, 'SUCCESSFUL'], ['eval_pr', 2],
                      ['ci_q_all', 'FAILED']],
                statuses_q=['SUCCESSFUL'])


def specs(tier):
    if tier == 'quick':
        return [spec('c02-q-D2', 'D2', 'development/4.3', 'development/5.1',
                     depth=4),
                behind_failed_spec(1),
                queued_spec('D2', 'development/4.3', 'development/4.3', 3),
                # the older entry has the shorter cascade
                queued_spec('D2', 'development/4.3', 'development/5.1', 2,
                            order=(2, 1)),
                spec('c02-noq-S3', 'S3', 'stabilization/4.3.18',
                     'stabilization/4.3.18', queue=False, depth=4,
                     init=[['open', PR1, 'stabilization/4.3.18'],
                           ['open', PR2, 'stabilization/4.3.18'],
                           ['eval_pr', 1], ['eval_pr', 2]])]
    return [spec('c02-q-D2', 'D2', 'development/4.3', 'development/5.1',
                 depth=8, statuses_q=['SUCCESSFUL', 'FAILED']),
            behind_failed_spec(4),
            # conflicts: the integration branches before the conflicting one
            # are pushed, then the job stops; manual resolution
            spec('c02-noq-D3-conflict', 'D3', None, None, queue=False,
                 depth=6, resolve=True, init=conflict_init(),
                 statuses_int=[],
                 config={'layout': 'D3', 'queue': False, 'skip_queue': False,
                         'options': BYPASS_REVIEW + ['bypass_build_status']}),
            spec('c02-q-D3-conflict', 'D3', None, None, depth=6,
                 resolve=True, init=conflict_init(), statuses_int=[],
                 config={'layout': 'D3', 'queue': True, 'skip_queue': False,
                         'options': BYPASS_REVIEW + ['bypass_build_status']}),
            queued_spec('D3', 'development/4.3', 'development/4.3', 5),
            queued_spec('D3', 'development/4.3', 'development/5.1', 5),
            queued_spec('D3', 'development/4.3', 'development/5.1', 5,
                        order=(2, 1)),
            queued_spec('D3', 'development/5.1', 'development/10.0', 5,
                        order=(2, 1)),
            spec('c02-q-S3', 'S3', 'stabilization/4.3.18', 'development/4.3',
                 depth=7),
            spec('c02-noq-S3', 'S3', 'stabilization/4.3.18',
                 'stabilization/4.3.18', queue=False, depth=8, pushes=1),
            spec('c02-skipq-M3', 'M3', 'development/4.3', 'development/4.3',
                 skip=True, depth=7),
            spec('c02-noq-nooct-D3', 'D3', 'development/4.3',
                 'development/5.1', queue=False, depth=7,
                 config={'layout': 'D3', 'queue': False, 'skip_queue': False,
                         'options': BYPASS_REVIEW + ['no_octopus']})]


def fingerprint(spec, v):
    import hashlib, json
    blob = json.dumps([spec.get('name'), v.get('history'),
                       v.get('deviation')], sort_keys=True)
    return hashlib.sha1(blob.encode()).hexdigest()[:12]


def run(tier, seed, workers=None):
    cr = check.run_specs(
        PROP, specs(tier), seed, workers=workers, level='fault_enumeration',
        required_statuses=['Merged', 'Queued', 'SuccessMessage'],
        nontrivial_stat='c02_deviations', fingerprint=fingerprint,
        rule='for every job transition of the explored FLOW graph that '
             'performs remote-mutating operations (git push, comment, PR '
             'creation, decline): one run per crash boundary (operation i and '
             'all later ones fail with a BaseException) and one run per '
             'single ref rejected by a real update hook and one run per '
             'command talking to the remote (clone, fetch, push, remote '
             'update, ls-remote) failing with a non-zero exit; after each: '
             'all-or-'
             'none of every user commit over the targets + inclusion chain; '
             'then re-delivery to a fresh Bert-E (queue reset if it says the '
             'queues are out of order) and comparison of destination trees '
             'with the uninterrupted run; distinct_nontrivial = deviation '
             'runs executed',
        assumptions=['crash = crash-stop between operations; a single ref '
                     'update is atomic (git)',
                     'the rejecting hook stays for the whole job and is '
                     'removed before recovery'])
    cr.coverage['evaluations'] = cr.coverage['transitions'] + \
        cr.coverage['monitor_stats'].get('c02_deviations', 0)
    return cr


def replay(data):
    return check.replay_sys(data, {PROP})
