"""C06 - the build gate requires a green build on every integration commit.

(a) ENUM on the real check_build_status(job, wbranches); reference from the
    statement.
(b) SYS monitor 'c06' on FLOW explorations (histories where integration tips
    change between build report and evaluation)."""
import itertools
from types import SimpleNamespace

from ..enum import core
from ..runner import CheckResult

PROP = 'C06'
STATUSES = ['SUCCESSFUL', 'INPROGRESS', 'NOTSTARTED', 'STOPPED', 'FAILED']
BYP = ['none', 'comment', 'author', 'cmdline']


class WB:
    def __init__(self, i):
        self.name = 'w/%d.0/bugfix/x' % i if i else 'bugfix/x'
        self.sha = '%040x' % (i + 1)

    def get_latest_commit(self):
        return self.sha

    def __str__(self):
        return self.name


class Host:
    def __init__(self):
        self.table = {}
        self.asked = []

    def get_build_status(self, sha, key):
        self.asked.append((sha, key))
        return self.table.get((sha, key), 'NOTSTARTED')

    def get_build_url(self, sha, key):
        return 'http://ci/%s' % sha

    def get_commit_url(self, sha):
        return 'http://h/%s' % sha


def enum_part(p, part, nparts, tier):
    core.import_berte()
    import bert_e.exceptions as exc
    from bert_e.workflow import gitwaterflow as gwf
    from bert_e.job import PullRequestJob
    from bert_e.reactor import Reactor
    from bert_e.lib.settings_dict import SettingsDict
    exc.render = lambda template, **kw: 'stub'
    idx = -1
    for n in (1, 2, 3, 4):
        wbs = [WB(i) for i in range(n)]
        for vec in itertools.product(STATUSES, repeat=n):
            for byp in BYP:
                for key in ('', 'pre-merge'):
                    for other_key_green in (False, True):
                        idx += 1
                        if idx % nparts != part:
                            continue
                        gwf.setup({'bypass_build_status': True}
                                  if byp == 'cmdline' else {})
                        host = Host()
                        for wb, st in zip(wbs, vec):
                            host.table[(wb.sha, key)] = st
                            if other_key_green:
                                host.table[(wb.sha, 'other')] = 'SUCCESSFUL'
                        base = SettingsDict({
                            'build_key': key, 'robot': 'robot',
                            'pr_author_options': core.author_options(
                                'alice', ['bypass_build_status']
                                if byp == 'author' else []),
                            'repository_host': 'mock',
                            'repository_owner': 'o', 'repository_slug': 's',
                            'pull_request_base_url': 'http://h/{pr_id}'})
                        pr = SimpleNamespace(author='alice', id=1)
                        job = PullRequestJob(
                            bert_e=SimpleNamespace(settings=base,
                                                   project_repo=None,
                                                   git_repo=None),
                            pull_request=pr, project_repo=host,
                            git_repo=object())
                        Reactor().init_settings(job)
                        if byp == 'comment':
                            job.settings['bypass_build_status'] = True
                        outcome, named = 'pass', None
                        try:
                            gwf.check_build_status(job, wbs)
                        except exc.BuildFailed as e:
                            outcome = 'BuildFailed'
                            named = e.kwargs['branch'].name
                        except exc.SilentException as e:
                            outcome = 'silent:' + type(e).__name__
                        except exc.TemplateException as e:
                            outcome = 'comment:' + type(e).__name__
                        except Exception as e:
                            outcome = 'crash:' + type(e).__name__
                        p.evaluations += 1
                        bypassed = byp != 'none' or key == ''
                        if not bypassed and any(s != 'SUCCESSFUL'
                                                for s in vec):
                            p.nontrivial += 1
                        case = {'statuses': list(vec), 'bypass': byp,
                                'build_key': key,
                                'other_key_green': other_key_green}
                        if bypassed or all(s == 'SUCCESSFUL' for s in vec):
                            exp = 'pass'
                        elif any(s in ('FAILED', 'STOPPED') for s in vec):
                            exp = 'BuildFailed'
                        else:
                            exp = 'silent'
                        ok = outcome == exp or (exp == 'silent' and
                                                outcome.startswith('silent:'))
                        if not ok:
                            p.mismatch('gate:%s' % case,
                                       'check_build_status -> %s, statement '
                                       'says %s: %s' % (outcome, exp, case),
                                       case)
                        elif exp == 'BuildFailed':
                            st = dict(zip([w.name for w in wbs], vec))
                            if st.get(named) not in ('FAILED', 'STOPPED'):
                                p.mismatch('named:%s' % case,
                                           'BuildFailed names %s whose build '
                                           'is %s: %s' % (named,
                                                          st.get(named),
                                                          case), case)
                        if len(p.samples) < 1 and n == 3 and exp == 'silent':
                            p.samples.append({'case': case,
                                              'outcome': outcome})
    gwf.setup({})


def run(tier, seed, workers=None):
    cr = CheckResult(PROP, 'exploration')
    tot = core.run_parts(enum_part, 16, extra=(tier,), workers=workers)
    cr = core.fill_result(
        cr, tot,
        rule='(a) every vector of 5 statuses over 1-4 integration branches x '
             'bypass source {none, comment, per-author, command line} x build '
             'key {empty, pre-merge} x another key green or not, on the real '
             'check_build_status; non-trivial = gate active and some build '
             'not green',
        assumptions=['stub job/host objects provide exactly the attributes '
                     'check_build_status reads'])
    try:
        from . import C06b
    except ImportError:
        C06b = None
    if C06b is not None:
        C06b.extend(cr, tier, seed, workers)
    return cr


def replay(data):
    if data.get('engine') == 'sys':
        from ..sysmc import check
        return check.replay_sys(data, {PROP})
    core.import_berte()
    return False, 'enum case (re-run the check to reproduce): %s' % data[
        'case']
