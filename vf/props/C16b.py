"""C16 part (b): the GitHub password and GitHub-App authentication flows
driven through a scripted HTTP session, including failing responses; every
output channel is searched for the password, the Authorization header values,
the signed JWT and the installation token."""
import io
import json
import logging
import os
import sys
import traceback
import datetime

from ..enum import core

PASSWORD = 'gh-p@ss:w/rd?&=x'
INSTALL_TOKEN = 'ghs_INSTALLATIONTOKEN0123456789'
SHA = 'a' * 40
ENDPOINTS = ['install_token', 'repo', 'pull', 'comment', 'status', 'runs',
             'set_status']
BEHAVIOURS = ['ok', '401', '404', '422', '500_then_ok', '429_twice',
              'connection_error']
USER = {'id': 1, 'login': 'o'}
REPO = {'name': 'r', 'owner': USER, 'full_name': 'o/r'}


def payload(endpoint):
    if endpoint == 'install_token':
        return {'token': INSTALL_TOKEN}
    if endpoint == 'repo':
        return REPO
    if endpoint == 'pull':
        return {'number': 1, 'state': 'open', 'title': 't', 'body': '',
                'comments_url': 'https://api.github.com/repos/o/r/issues/1/comments',
                'user': USER,
                'head': {'ref': 'bugfix/x', 'sha': SHA, 'repo': REPO},
                'base': {'ref': 'development/1.0', 'sha': SHA, 'repo': REPO}}
    if endpoint == 'comment':
        return {'id': 5, 'body': 'hello', 'user': USER}
    if endpoint == 'status':
        return {'state': 'success', 'sha': SHA, 'statuses': [
            {'state': 'success', 'target_url': None, 'description': None,
             'context': 'pre-merge'}]}
    if endpoint == 'runs':
        return {'total_count': 0, 'workflow_runs': []}
    if endpoint == 'set_status':
        return {'state': 'success', 'target_url': '', 'description': '',
                'context': 'pre-merge'}
    raise ValueError(endpoint)


def classify(method, url):
    if '/access_tokens' in url:
        return 'install_token'
    if url.endswith('/status'):
        return 'status'
    if '/actions/runs' in url:
        return 'runs'
    if '/statuses/' in url:
        return 'set_status'
    if '/comments' in url:
        return 'comment'
    if '/pulls/' in url:
        return 'pull'
    if url.rstrip('/').endswith('/repos/o/r'):
        return 'repo'
    return 'other:' + url


class Scripted:
    """Stands for requests.Session.request."""
    def __init__(self, plan):
        self.plan = plan       # endpoint -> behaviour
        self.count = {}
        self.seen_headers = []

    def __call__(self, session, method, url, **kwargs):
        import requests
        ep = classify(method, url)
        n = self.count[ep] = self.count.get(ep, 0) + 1
        merged = dict(session.headers)
        merged.update({k: v for k, v in (kwargs.get('headers') or {}).items()
                       if v is not None})
        self.seen_headers.append(merged.get('Authorization'))
        beh = self.plan.get(ep, 'ok')
        if beh == 'connection_error':
            raise requests.exceptions.ConnectionError(
                'HTTPSConnectionPool(host=api.github.com): Max retries '
                'exceeded with url: %s' % url)
        code = 200
        if beh in ('401', '404', '422'):
            code = int(beh)
        elif beh == '500_then_ok' and n == 1:
            code = 500
        elif beh == '429_twice':
            code = 429
        r = requests.Response()
        r.status_code = code
        r.url = url
        r.reason = {200: 'OK', 401: 'Unauthorized', 404: 'Not Found',
                    422: 'Unprocessable', 500: 'Server Error',
                    429: 'Too Many Requests'}[code]
        body = payload(ep) if code == 200 and not ep.startswith('other') \
            else {'message': r.reason}
        r._content = json.dumps(body).encode()
        r.headers['Content-Type'] = 'application/json'
        req = requests.Request(method, url, headers=merged).prepare()
        r.request = req
        r.elapsed = datetime.timedelta(microseconds=1)
        return r


_KEY = {}


def private_key():
    if 'pem' not in _KEY:
        from cryptography.hazmat.primitives.asymmetric import rsa
        from cryptography.hazmat.primitives import serialization
        k = rsa.generate_private_key(public_exponent=65537, key_size=2048)
        _KEY['pem'] = k.private_bytes(
            serialization.Encoding.PEM,
            serialization.PrivateFormat.TraditionalOpenSSL,
            serialization.NoEncryption()).decode()
    return _KEY['pem']


def run_scenario(flow, plan, level):
    """Returns (channels dict, secrets list, ops outcome list)."""
    import requests
    from bert_e.git_host import github
    from bert_e.git_host import base
    script = Scripted(plan)
    orig_request = requests.Session.request
    orig_sleep = base.time.sleep
    jwts = []
    records = []

    class Cap(logging.Handler):
        def emit(self, record):
            try:
                records.append(self.format(record))
            except Exception as e:
                records.append('FORMAT-ERROR %r' % e)
    h = Cap()
    h.setFormatter(logging.Formatter('%(levelname)s %(name)s: %(message)s'))
    root = logging.getLogger()
    old_level = root.level
    logging.disable(logging.NOTSET)
    root.addHandler(h)
    root.setLevel(getattr(logging, level))
    out, err = io.StringIO(), io.StringIO()
    old_out, old_err = sys.stdout, sys.stderr
    excs = []
    outcomes = []
    requests.Session.request = lambda s, m, u, **kw: script(s, m, u, **kw)
    base.time.sleep = lambda s: None
    orig_jwt = github.Client._get_jwt

    def rec_jwt(self):
        t = orig_jwt(self)
        jwts.append(t)
        return t
    github.Client._get_jwt = rec_jwt
    sys.stdout, sys.stderr = out, err
    try:
        def op(name, fn):
            try:
                v = fn()
                outcomes.append((name, 'ok'))
                return v
            except BaseException as e:
                outcomes.append((name, type(e).__name__))
                excs.append(''.join(traceback.format_exception(
                    type(e), e, e.__traceback__)) + '\n' + repr(e) + '\n' +
                    str(e))
                return None
        if flow == 'password':
            client = op('client', lambda: github.Client(
                'robot', PASSWORD, 'robot@x.org'))
        else:
            client = op('client', lambda: github.Client(
                'robot', PASSWORD, 'robot@x.org', app_id=7,
                installation_id=9, private_key=private_key()))
        repo = pr = None
        if client is not None:
            repo = op('get_repository',
                      lambda: client.get_repository('r', 'o'))
        if repo is not None:
            pr = op('get_pull_request', lambda: repo.get_pull_request(1))
            op('get_build_status',
               lambda: repo.get_build_status(SHA, 'pre-merge'))
            op('set_build_status', lambda: repo.set_build_status(
                SHA, 'pre-merge', 'SUCCESSFUL'))
        if pr is not None:
            op('add_comment', lambda: pr.add_comment('hello'))
    finally:
        sys.stdout, sys.stderr = old_out, old_err
        github.Client._get_jwt = orig_jwt
        requests.Session.request = orig_request
        base.time.sleep = orig_sleep
        root.removeHandler(h)
        root.setLevel(old_level)
        logging.disable(logging.CRITICAL)
        from bert_e.git_host import cache
        cache.BUILD_STATUS_CACHE.clear()
    secrets = [PASSWORD, 'token ' + PASSWORD]
    if flow == 'app':
        secrets += [INSTALL_TOKEN] + jwts
    channels = {'log': '\n'.join(records), 'stdout': out.getvalue(),
                'stderr': err.getvalue(), 'exceptions': '\n'.join(excs)}
    return channels, secrets, outcomes, script


def scenarios(tier):
    out = [{}]
    for ep in ENDPOINTS:
        for beh in BEHAVIOURS[1:]:
            out.append({ep: beh})
    if tier == 'thorough':
        for e1 in ENDPOINTS:
            for e2 in ENDPOINTS:
                if e1 < e2:
                    for b1 in ('401', '429_twice', 'connection_error'):
                        for b2 in ('404', '500_then_ok'):
                            out.append({e1: b1, e2: b2})
    return out


def enum_part(p, part, nparts, tier):
    core.import_berte()
    idx = -1
    for flow in ('password', 'app'):
        for level in ('DEBUG', 'INFO'):
            for plan in scenarios(tier):
                idx += 1
                if idx % nparts != part:
                    continue
                if flow == 'password' and 'install_token' in plan:
                    continue
                channels, secrets, outcomes, script = run_scenario(
                    flow, plan, level)
                p.evaluations += 1
                if plan:
                    p.nontrivial += 1
                auth = [a for a in script.seen_headers if a]
                if not auth:
                    p.mismatch('vacuous', 'no Authorization header was ever '
                               'sent: scenario did not authenticate', {})
                case = {'flow': flow, 'log_level': level, 'plan': plan}
                for name, text in channels.items():
                    for s in secrets:
                        if s and s in text:
                            at = text.index(s)
                            what = 'JWT' if s.count('.') == 2 and \
                                len(s) > 100 else (
                                'installation token'
                                if s == INSTALL_TOKEN else 'password')
                            p.mismatch(
                                'leak:%s:%s:%s' % (name, flow, what),
                                '%s visible on %s in the %s flow (%s): '
                                '...%s...' % (
                                    what, name, flow, plan or 'all ok',
                                    text[max(0, at - 60):at + 30].replace(
                                        '\n', ' | ')), case)
                            break
                if len(p.samples) < 1 and plan:
                    p.samples.append({'case': case, 'outcomes': outcomes})


MASK_PASSWORDS = [
    # boundary characters (not word characters, kept by quote_plus)
    'S3cr3t.', 'S3cr3t-', '~S3cr3t', '_S3cr3t_', '.', '-x-', 'S3cr3t ',
    ' S3cr3t', '-', '~',
    # regular-expression metacharacters, raw and percent-encoded
    'a.b*c', '(x)+[y]', '\\d+', '^pw$', 'p|q', 'x{2}', 'a?b',
    # looks like the mask, repeats, contains itself
    '***', 'abab', 'aa', 'pw***pw',
    # URL / shell special, non-ASCII, long
    'p@ss: w/rd?&=x +y', 'a\'b"c $(x) ;|', 'p\u00e4ssw\u00f6rd\u20ac',
    'x' * 200, '%41%', '100%', 'a+b', 'a%2Bb',
    # ordinary
    'plainpassword', 'P4ssw0rd', '1234',
]


def mask_part(p, part, nparts):
    """The masking of bert_e.lib.simplecmd.cmd itself, for passwords chosen
    at the boundaries of what a masking implementation may get wrong: for
    each password, a command that prints the clone URL (a) succeeds, (b)
    fails, (c) times out, at DEBUG and INFO; the returned output, the
    CommandError text and the log records are searched."""
    import logging
    from urllib.parse import quote_plus, quote
    core.import_berte()
    from bert_e.lib import simplecmd
    records = []

    class H(logging.Handler):
        def emit(self, rec):
            try:
                records.append(rec.getMessage())
                if rec.exc_info:
                    records.append(logging.Formatter().formatException(
                        rec.exc_info))
            except Exception as e:
                records.append('unformattable %r' % (e,))
    h = H()
    lg = logging.getLogger('bert_e.lib.simplecmd')
    old = (lg.level, lg.propagate, logging.root.manager.disable)
    logging.disable(logging.NOTSET)
    lg.addHandler(h)
    lg.propagate = False
    idx = -1
    try:
        for pw in MASK_PASSWORDS:
            enc = quote_plus(pw)
            url = 'https://robot:%s@host.example/o/r.git' % enc
            for level in (logging.DEBUG, logging.INFO):
                for mode in ('ok', 'fail', 'timeout'):
                    idx += 1
                    if idx % nparts != part:
                        continue
                    lg.setLevel(level)
                    del records[:]
                    os.environ['VERIF_URL'] = url
                    script = {
                        'ok': 'echo "cloning $VERIF_URL" # %s' % url,
                        'fail': 'echo "fatal: unable to access '
                                '\'$VERIF_URL/\'"; exit 128 # %s' % url,
                        'timeout': 'echo "fatal: $VERIF_URL"; sleep 2 # %s'
                                   % url}[mode]
                    texts = {}
                    try:
                        out = simplecmd.cmd(
                            script, mask_pwd=enc,
                            timeout=0.3 if mode == 'timeout' else 20)
                        texts['output'] = out
                    except simplecmd.CommandError as e:
                        texts['CommandError'] = str(e)
                        # what a traceback would print: the cause, or the
                        # context unless it is suppressed (`from None`)
                        c = e
                        for _ in range(5):
                            c = c.__cause__ or (
                                None if c.__suppress_context__
                                else c.__context__)
                            if c is None:
                                break
                            texts['chained'] = texts.get('chained', '') + \
                                str(c)
                    except Exception as e:
                        texts['crash'] = '%s: %s' % (type(e).__name__, e)
                    texts['log'] = '\n'.join(records)
                    p.evaluations += 1
                    p.nontrivial += 1
                    case = {'password': pw, 'level': logging.getLevelName(
                        level), 'mode': mode}
                    if 'crash' in texts:
                        p.mismatch('mask-crash:%r' % pw,
                                   'simplecmd.cmd crashed: %s (%s)' % (
                                       texts['crash'], case), case)
                    if mode == 'ok' and 'cloning' not in texts.get(
                            'output', ''):
                        p.mismatch('mask-output-lost:%r' % pw,
                                   'output of a successful command lost: '
                                   '%r (%s)' % (texts.get('output'), case),
                                   case)
                    needles = {enc, quote(pw, safe='')} | (
                        {pw} if len(pw) >= 4 else set())
                    for ch, text in texts.items():
                        for nd in needles:
                            # the mask itself and one-character passwords
                            # cannot be told from ordinary text
                            if len(nd) < 2 or set(nd) == {'*'}:
                                continue
                            if nd in text:
                                p.mismatch(
                                    'mask-leak:%s:%r' % (ch, pw),
                                    'password %r visible in %s when the '
                                    'command %s at %s' % (
                                        pw, ch, mode,
                                        logging.getLevelName(level)), case)
    finally:
        lg.removeHandler(h)
        lg.setLevel(old[0])
        lg.propagate = old[1]
        logging.disable(old[2])
        os.environ.pop('VERIF_URL', None)


def extend(cr, tier, seed, workers):
    tot = core.run_parts(enum_part, 16, extra=(tier,), workers=workers)
    tm = core.run_parts(mask_part, 8, workers=workers)
    tot.evaluations += tm.evaluations
    tot.nontrivial += tm.nontrivial
    tot.mismatches += tm.mismatches
    tot.error = tot.error or tm.error
    cr.coverage['mask_sweep'] = {
        'evaluations': tm.evaluations, 'passwords': len(MASK_PASSWORDS),
        'rule': 'simplecmd.cmd with mask_pwd = quote_plus(password) for '
                'passwords at masking boundaries (non-word first/last '
                'character, regular-expression metacharacters, the mask '
                'itself, percent forms, 200 characters) x {success, exit '
                '128, time-out} x {DEBUG, INFO}; output, CommandError text '
                '(and chained exceptions) and log records searched'}
    cov = cr.coverage
    cov['github_flows_part_b'] = {
        'evaluations': tot.evaluations, 'nontrivial': tot.nontrivial,
        'rule': 'password flow and GitHub-App flow (RSA key generated at run '
                'time) x log level x one scripted misbehaviour {401, 404, '
                '422, 500 then 200, 429 twice, connection error} on one of '
                '{installation token, repository, pull request, comment, '
                'status, workflow runs, set status} (thorough: pairs); '
                'channels: log records, stdout, stderr, exception text and '
                'tracebacks',
        'samples': tot.samples[:2]}
    cov['evaluations'] += tot.evaluations
    cov['distinct_nontrivial'] += tot.nontrivial
    if tot.error:
        cr.harness_errors.append(tot.error[-2000:])
    seen = set()
    for fp, msg, case in tot.mismatches:
        if fp in seen:
            continue
        seen.add(fp)
        if fp == 'vacuous':
            cr.harness_errors.append(msg)
        else:
            cr.add_violation(msg, fp, {'engine': 'enum', 'case': case})


def replay(data):
    core.import_berte()
    case = data['case']
    channels, secrets, outcomes, script = run_scenario(
        case['flow'], case['plan'], case['log_level'])
    leaks = [(n, s[:12]) for n, t in channels.items() for s in secrets
             if s and s in t]
    return (not leaks), 'case %s -> outcomes %s, leaks %s' % (case, outcomes,
                                                              leaks)
