"""C05 - a queue evaluation merges the longest all-green prefix of the queue,
in order.

ENUM on the real QueueCollection (build, validate, mergeable_prs,
mergeable_queues) over an in-memory commit graph.  The graph is not
hand-written: for every configuration (cascade, destination of each queued
pull request) the queue is built on a real repository by real Bert-E and its
commit graph is extracted; a FakeRepo then answers the git commands the class
issues (branch list, checkout, rev-parse, merge-base --is-ancestor) from that
graph, so that every status assignment can be enumerated in memory.
Conformance: sampled assignments (and every disagreement) are replayed on the
real repository through the real handle_merge_queues."""
import itertools
import multiprocessing as mp
import os
import random
import shutil
import traceback

from ..runner import CheckResult
from ..enum import core

PROP = 'C05'
STATUS4 = ['SUCCESSFUL', 'FAILED', 'INPROGRESS', 'NOTSTARTED']
STATUS2 = ['SUCCESSFUL', 'FAILED']
LAYOUT_DESTS = {
    'D2': ['development/4.3', 'development/5.1'],
    'D3': ['development/4.3', 'development/5.1', 'development/10.0'],
    'S3': ['stabilization/4.3.18', 'development/4.3', 'development/5.1'],
    'SH3': ['hotfix/4.2.17', 'stabilization/4.3.18', 'development/4.3',
            'development/5.1'],
    'SS3': ['stabilization/4.3.18', 'development/4.3',
            'stabilization/5.1.5', 'development/5.1', 'development/10.0'],
}


# ---------------------------------------------------------------------------
# the model of git: a commit graph extracted from the real repository
# ---------------------------------------------------------------------------
class Graph:
    def __init__(self, refs, parents, tags):
        self.refs, self.parents, self.tags = refs, parents, tags
        self._anc = {}

    def ancestors(self, sha):
        a = self._anc.get(sha)
        if a is None:
            a = {sha}
            stack = [sha]
            while stack:
                for p in self.parents.get(stack.pop(), ()):
                    if p not in a:
                        a.add(p)
                        stack.append(p)
            self._anc[sha] = a
        return a

    def resolve(self, rev):
        rev = rev.strip().strip("'")
        if rev.startswith('origin/'):
            rev = rev[len('origin/'):]
        if rev in self.refs:
            return self.refs[rev]
        for sha in self.parents:
            if sha.startswith(rev) and len(rev) >= 7:
                return sha
        raise KeyError(rev)


class FakeRepo:
    """Answers exactly the git commands QueueCollection / BranchCascade /
    Branch issue, from the extracted graph."""
    def __init__(self, graph):
        self.g = graph
        self.log = []

    def cmd(self, command, *args, **kw):
        from bert_e.lib.simplecmd import CommandError
        if args:
            command = command % tuple(str(a).strip() for a in args)
        self.log.append(command)
        w = command.split()
        if w[:2] == ['git', 'branch'] and '-r' in w:
            pat = w[-1].replace('origin/', '').rstrip('*')
            return ''.join('  origin/%s\n' % r for r in sorted(self.g.refs)
                           if r.startswith(pat))
        if w[:3] == ['git', 'branch', '-a']:
            pat = w[-1].strip('*').rstrip('/')
            return ''.join('  remotes/origin/%s\n' % r
                           for r in sorted(self.g.refs)
                           if r.startswith(pat + '/'))
        if w[:2] == ['git', 'tag']:
            return ''.join(t + '\n' for t in self.g.tags)
        if w[:2] == ['git', 'checkout']:
            self.g.resolve(w[2])
            return ''
        if w[:2] == ['git', 'rev-parse']:
            return self.g.resolve(w[2]) + '\n'
        if w[:3] == ['git', 'merge-base', '--is-ancestor']:
            a, b = self.g.resolve(w[3]), self.g.resolve(w[4])
            if a in self.g.ancestors(b):
                return ''
            raise CommandError('not an ancestor')
        raise AssertionError('FakeRepo: unexpected command %r' % command)

    def checkout(self, name):
        from bert_e.lib.git import CheckoutFailedException
        try:
            self.g.resolve(name)
        except KeyError:
            raise CheckoutFailedException(name)


class Host:
    def __init__(self, table):
        self.table = table

    def get_build_status(self, sha, key):
        return self.table.get(sha, 'NOTSTARTED')


# ---------------------------------------------------------------------------
# reference (from the statement)
# ---------------------------------------------------------------------------
def targets_of(dst, dests):
    from ..sysmc.faults import targets_of as t
    return t(dst, dests)


def reference(prs, dests, qw, status, force):
    """prs: list of (id, dst) in order of entry.  qw[(id, target)] = sha of
    the queue commit.  Returns (selected ids, {target: sha})."""
    groups = {}
    for pid, dst in prs:
        g = dst if dst.startswith('hotfix/') else 'main'
        groups.setdefault(g, []).append((pid, dst))
    selected, moves = [], {}
    for g, lst in groups.items():
        best = 0
        for k in range(1, len(lst) + 1):
            newest = {}
            for pid, dst in lst[:k]:
                for t in targets_of(dst, dests):
                    newest[t] = pid
            ok = all(status.get(qw[(pid, t)], 'NOTSTARTED') == 'SUCCESSFUL'
                     for t, pid in newest.items())
            if ok or force:
                best = k
        if force:
            best = len(lst)
        newest = {}
        for pid, dst in lst[:best]:
            selected.append(pid)
            for t in targets_of(dst, dests):
                newest[t] = pid
        for t, pid in newest.items():
            moves[t] = qw[(pid, t)]
    return sorted(selected), moves


# ---------------------------------------------------------------------------
# per configuration
# ---------------------------------------------------------------------------
def build_world(root, layout, dsts, order=None, pre=None):
    from ..sysmc.world import World, Config
    from ..sysmc import events as E
    from ..sysmc.drivers import BYPASS_REVIEW
    cfg = Config(layout=layout, queue=True,
                 options=BYPASS_REVIEW + ['bypass_build_status'])
    from ..sysmc.explorer import get_world
    w = get_world(root, cfg)
    w.init_layout()
    w.new_berte()
    w.set_pending([])
    base = 0
    if pre:
        # prehistory: an earlier pull request went through the queue and was
        # merged, which leaves empty queue branches behind
        base = 1
        E.apply(w, ['open', 'bugfix/TEST-0', pre])
        o = E.apply(w, ['eval_pr', 1])
        E.apply(w, ['ci_q_all', 'SUCCESSFUL'])
        o2 = E.apply(w, ['eval_pr', 1])
        if (o.get('status'), o2.get('status')) != ('Queued', 'Merged'):
            return w, ['prehistory: %s %s' % (o.get('status'),
                                              o2.get('status'))]
    ids = []
    for i, dst in enumerate(dsts):
        src = 'bugfix/TEST-%d' % (i + 1)
        E.apply(w, ['open', src, dst])
        ids.append([p['id'] for p in w.state()['prs']
                    if p['src'] == src][0])
    w.pr_ids = ids
    sts = []
    for i in (order or range(len(dsts))):
        o = E.apply(w, ['eval_pr', ids[i]])
        sts.append(o.get('status'))
    return w, sts


def extract_graph(w):
    refs = w.heads()
    out = w.git('rev-list', '--parents', '--all')
    parents = {}
    for line in out.splitlines():
        ws = line.split()
        parents[ws[0]] = ws[1:]
    tags = [k[len('refs/tags/'):] for k in w.refs()
            if k.startswith('refs/tags/')]
    return Graph(refs, parents, tags)


def run_real_class(graph, table, force):
    """The real QueueCollection over the FakeRepo."""
    from bert_e.workflow.gitwaterflow import branches as B
    repo = FakeRepo(graph)
    cascade = B.BranchCascade()
    cascade.build(repo)
    qc = B.QueueCollection(Host(table), 'pre-merge',
                           cascade.get_merge_paths(), force)
    qc.build(repo)
    qc.validate()
    prs = list(qc.mergeable_prs)
    moves = {}
    for version, branches in qc.mergeable_queues.items():
        lst = branches[B.QueueIntegrationBranch]
        if lst:
            dst = branches[B.QueueBranch].dst_branch.name
            moves[dst] = graph.resolve(lst[0].name)
    return sorted(prs), moves


def config_task(args):
    root, layout, dsts, order, tier, seed, pre = args
    base = 1 if pre else 0
    res = {'layout': layout, 'dsts': dsts, 'order': order, 'evaluations': 0,
           'nontrivial': 0, 'mismatches': [], 'replays': 0,
           'replay_mismatches': [], 'error': None, 'commits': 0}
    try:
        core.import_berte()
        from ..sysmc import events as E
        w, sts = build_world(root, layout, dsts, order, pre)
        if any(s != 'Queued' for s in sts):
            res['error'] = 'could not queue %s on %s: %s' % (dsts, layout,
                                                              sts)
            return res
        snap = os.path.join(root, 'c05snap.%d' % os.getpid())
        shutil.rmtree(snap, ignore_errors=True)
        w.snapshot(snap)
        graph = extract_graph(w)
        dests = LAYOUT_DESTS[layout]
        # pull requests in order of entry into the queue (ids are given
        # at opening time and need not follow that order)
        prs = [(w.pr_ids[i], dsts[i]) for i in order]
        qw = {}
        for pid, dst in prs:
            for t in targets_of(dst, dests):
                ver = t.split('/', 1)[1]
                cands = [r for r in graph.refs
                         if r.startswith('q/w/%d/' % pid) and
                         (r.split('/')[3] == ver or
                          (t.startswith('hotfix/') and
                           r.split('/')[3].startswith(ver + '.')))]
                if len(cands) != 1:
                    res['error'] = 'queue entry of PR %d on %s: %s' % (
                        pid, t, cands)
                    return res
                qw[(pid, t)] = graph.refs[cands[0]]
        commits = sorted(set(qw.values()))
        res['commits'] = len(commits)
        alphabet = STATUS4 if len(commits) <= (6 if tier == 'quick' else 8) \
            else STATUS2
        if len(commits) > (12 if tier == 'quick' else 16):
            res['error'] = 'too many queue commits: %d' % len(commits)
            return res
        rng = random.Random('%s-%s-%d' % (layout, dsts, seed))
        n_assign = len(alphabet) ** len(commits)
        sample_idx = set(rng.sample(range(n_assign), min(3, n_assign)))
        sample_idx.add(0)
        to_replay = []
        for idx, vec in enumerate(itertools.product(alphabet,
                                                    repeat=len(commits))):
            table = dict(zip(commits, vec))
            for force in (False, True) if idx % 64 == 0 else (False,):
                try:
                    got = run_real_class(graph, table, force)
                except Exception as e:
                    got = ('crash', '%s: %s' % (type(e).__name__, e))
                exp = reference(prs, dests, qw, table, force)
                res['evaluations'] += 1
                if exp[0] and len(exp[0]) < len(prs):
                    res['nontrivial'] += 1
                if got != exp:
                    if len(res['mismatches']) < 20:
                        res['mismatches'].append({
                            'layout': layout, 'destinations': dsts,
                            'prehistory': pre,
                            'entry_order': [i + 1 for i in order],
                            'pr_ids': list(w.pr_ids),
                            'statuses': {'%d@%s' % k: table[v]
                                         for k, v in qw.items()},
                            'force_merge': force,
                            'code': [got[0], {k: v[:8] for k, v in got[
                                1].items()}] if got[0] != 'crash' else
                            list(got),
                            'statement': [exp[0], {k: v[:8] for k, v in
                                                   exp[1].items()}]})
                    if not force and len(to_replay) < 6:
                        to_replay.append((table, got))
                elif idx in sample_idx and not force:
                    to_replay.append((table, got))
        # conformance: the same class on the real repository
        for table, got in to_replay:
            w.restore(snap)
            w.set_pending([])
            for sha, st in table.items():
                E.apply(w, ['ci_sha', sha, st])
            before = w.state()
            qmaster = sorted(b for b in w.heads() if b.startswith('q/') and
                             not b.startswith('q/w/'))[0]
            o = E.apply(w, ['eval_commit', qmaster])
            post = w.state()
            merged = sorted(p['id'] for p in post['prs']
                            if p['author'] != 'robot' and
                            p['state'] == 'MERGED' and
                            p['id'] in w.pr_ids)
            moved = {b: s for b, s in post['refs'].items()
                     if b in dests and before['refs'].get(b) != s}
            res['replays'] += 1
            # the real job against the statement (not only against the run
            # on the graph): what moved on the repository is what counts
            exp = reference(prs, dests, qw, table, False)
            if (merged, moved) != exp and len(res['mismatches']) < 20:
                res['mismatches'].append({
                    'layout': layout, 'destinations': dsts,
                    'prehistory': pre,
                    'entry_order': [i + 1 for i in order],
                    'pr_ids': list(w.pr_ids),
                    'statuses': {'%d@%s' % k: table[v]
                                 for k, v in qw.items()},
                    'force_merge': False, 'on': 'repository',
                    'code': [merged, {k: v[:8] for k, v in moved.items()}],
                    'statement': [exp[0], {k: v[:8] for k, v in
                                           exp[1].items()}]})
            if got[0] == 'crash':
                agree = o.get('status') not in ('Merged',)
            else:
                agree = merged == got[0] and moved == got[1]
            if not agree:
                res['replay_mismatches'].append({
                    'layout': layout, 'destinations': dsts,
                    'prehistory': pre,
                    'entry_order': [i + 1 for i in order],
                    'on_graph': [got[0], {k: v[:8] for k, v in
                                          got[1].items()}]
                    if got[0] != 'crash' else list(got),
                    'on_repository': [merged, {k: v[:8] for k, v in
                                               moved.items()}],
                    'job_status': o.get('status')})
        shutil.rmtree(snap, ignore_errors=True)
    except BaseException:
        res['error'] = traceback.format_exc()
    return res


def configs(tier):
    out = []
    if tier == 'quick':
        # (layout, max queue length, length up to which every entry order is
        # tried)
        plan = [('D2', 3, 2), ('D3', 2, 2), ('S3', 3, 2), ('SH3', 2, 0)]
    else:
        plan = [('D2', 4, 3), ('D3', 4, 3), ('S3', 4, 3), ('SH3', 3, 3),
                ('SS3', 3, 3)]
    for layout, maxn, permn in plan:
        dests = LAYOUT_DESTS[layout]
        for n in range(1, maxn + 1):
            for dsts in itertools.product(dests, repeat=n):
                perms = list(itertools.permutations(range(n)))
                if n > permn:
                    perms = perms[:1] if tier == 'quick' else [perms[0],
                                                               perms[-1]]
                for order in perms:
                    out.append((layout, list(dsts), list(order), None))
        # the same after a prehistory (a pull request to the oldest
        # development branch queued, built and merged: empty queue branches
        # are left behind)
        pre = [d for d in dests if d.startswith('development/')][0]
        for n in range(1, 3):     # thorough: 3 needed > 3 h, kept at 2
            for dsts in itertools.product(dests, repeat=n):
                out.append((layout, list(dsts), list(range(n)), pre))
    # two stabilization branches (three merge paths): every pair, and one
    # representative triple per destination-kind pattern in the quick tier
    S1, D1, S2 = ('stabilization/4.3.18', 'development/4.3',
                  'stabilization/5.1.5')
    if tier == 'quick':
        for dsts in itertools.product(LAYOUT_DESTS['SS3'], repeat=2):
            out.append(('SS3', list(dsts), [0, 1], None))
        for dsts in ([D1, D1, S2], [D1, S2, D1], [S1, S1, S2], [S1, D1, S2],
                     [S1, S2, D1], [D1, S2, S2]):
            out.append(('SS3', dsts, [0, 1, 2], None))
    return out


def classify(m):
    d = m['destinations']
    stabs = {x for x in LAYOUT_DESTS[m['layout']]
             if x.startswith('stabilization/')}
    code_sel = m['code'][0] if m['code'][0] != 'crash' else None
    if len(stabs) >= 2 and not m['force_merge'] and code_sel is not None \
            and set(m['statement'][0]) < set(code_sel):
        # several merge paths start from stabilization branches: the
        # per-path verdicts are combined by taking the shortest list
        return 'c05:selection-too-long:two-stabilization-merge-paths'
    kinds = ''.join('S' if x.startswith('stab') else (
        'H' if x.startswith('hotfix') else 'D') for x in d)
    inorder = m.get('entry_order') == sorted(m.get('entry_order', []))
    return 'c05:%s:%s:%s:%s' % (m['layout'], kinds, 'force' if m[
        'force_merge'] else 'normal', 'ids-in-entry-order' if inorder
        else 'ids-not-in-entry-order')


def run(tier, seed, workers=None):
    from ..sysmc import explorer
    explorer.clean_stale()
    root = explorer.master_root()
    os.makedirs(root, exist_ok=True)
    cr = CheckResult(PROP, 'model_checking')
    tasks = [(root, layout, dsts, order, tier, seed, pre)
             for layout, dsts, order, pre in configs(tier)]
    ctx = mp.get_context('fork')
    results = []
    try:
        with ctx.Pool(workers or min(16, os.cpu_count() or 4)) as pool:
            for r in pool.imap_unordered(config_task, tasks, 1):
                results.append(r)
    finally:
        shutil.rmtree(root, ignore_errors=True)
    evaluations = sum(r['evaluations'] for r in results)
    nontrivial = sum(r['nontrivial'] for r in results)
    replays = sum(r['replays'] for r in results)
    any_mismatch = any(r['mismatches'] for r in results)
    for r in results:
        if r['error']:
            cr.harness_errors.append(r['error'][-1500:])
        for m in r['replay_mismatches']:
            msg = ('CONFORMANCE: the class on the extracted graph and Bert-E '
                   'on the real repository disagree: %s' % m)
            if any_mismatch:
                # the code under test already departs from the statement:
                # two runs of it disagreeing is a symptom, not a harness
                # problem
                cr.notes.append(msg[:400])
            else:
                cr.harness_errors.append(msg)
        for m in r['mismatches']:
            cr.add_violation(
                'QueueCollection selects %s, the statement says %s: %s' % (
                    m['code'], m['statement'], {k: m.get(k) for k in (
                        'layout', 'destinations', 'prehistory',
                        'entry_order', 'statuses', 'force_merge')}),
                classify(m), {'engine': 'enum', 'case': m})
    sample = [{'layout': r['layout'], 'destinations': r['dsts'],
               'queue_commits': r['commits'],
               'assignments': r['evaluations']}
              for r in sorted(results, key=lambda r: -r['evaluations'])[:3]]
    cr.coverage = {
        'states': evaluations, 'transitions': evaluations,
        'traces_validated_against_impl': replays,
        'evaluations': evaluations, 'distinct_nontrivial': nontrivial,
        'configurations': len(results),
        'rule': 'configuration = cascade x destination of each queued pull '
                'request (every choice, in order of entry), queue built on a '
                'real repository by real Bert-E (pull requests entering the '
                'queue in every order, i.e. ids need not follow the order of '
                'entry; also after a prehistory that leaves empty queue '
                'branches behind) and its commit graph '
                'extracted; then every assignment of {SUCCESSFUL, FAILED, '
                'INPROGRESS, NOTSTARTED} (2-valued beyond 6/8 queue commits) '
                'to every queue commit, force merge on a subset; '
                'non-trivial = the statement selects a proper non-empty '
                'prefix; conformance = assignments replayed through '
                'handle_merge_queues on the real repository',
        'samples': sample, 'exhaustive': True}
    cr.assumptions = ['the commit graph is extracted from the real '
                      'repository, FakeRepo only re-implements rev-parse / '
                      'is-ancestor / branch listing over it (validated by '
                      'the replays)']
    return cr


def replay(data):
    m = data['case']
    core.import_berte()
    from ..sysmc import explorer
    root = os.path.join(explorer.master_root(), 'replay')
    try:
        order = [i - 1 for i in m.get('entry_order') or range(
            1, len(m['destinations']) + 1)]
        pre = m.get('prehistory')
        base = 1 if pre else 0
        w, sts = build_world(root, m['layout'], m['destinations'], order, pre)
        graph = extract_graph(w)
        dests = LAYOUT_DESTS[m['layout']]
        prs = [(w.pr_ids[i], m['destinations'][i]) for i in order]
        qw, table = {}, {}
        for key, st in m['statuses'].items():
            pid, t = key.split('@')
            ver = t.split('/', 1)[1]
            ref = [r for r in graph.refs if r.startswith('q/w/%s/' % pid)
                   and (r.split('/')[3] == ver or (
                       t.startswith('hotfix/') and
                       r.split('/')[3].startswith(ver + '.')))][0]
            qw[(int(pid), t)] = graph.refs[ref]
            table[graph.refs[ref]] = st
        exp = reference(prs, dests, qw, table, m['force_merge'])
        if m.get('on') == 'repository':
            from ..sysmc import events as E
            for sha, st in table.items():
                E.apply(w, ['ci_sha', sha, st])
            before = w.state()
            qmaster = sorted(b for b in w.heads() if b.startswith('q/') and
                             not b.startswith('q/w/'))[0]
            o = E.apply(w, ['eval_commit', qmaster])
            post = w.state()
            merged = sorted(p['id'] for p in post['prs']
                            if p['author'] != 'robot' and
                            p['state'] == 'MERGED' and p['id'] in w.pr_ids)
            moved = {b: s for b, s in post['refs'].items()
                     if b in dests and before['refs'].get(b) != s}
            got = (merged, moved)
            return got == exp, 'queue evaluation (%s) on the repository ' \
                '%s\nstatement %s' % (o.get('status'), got, exp)
        got = run_real_class(graph, table, m['force_merge'])
        return got == exp, 'code %s\nstatement %s' % (got, exp)
    finally:
        shutil.rmtree(explorer.master_root(), ignore_errors=True)
