"""C07 - only the right people can switch options on through comments.

ENUM on the real handle_comments(job) (so the computation of privileged /
authored from admins and the PR author is inside the unit).  Comments are
generated from (author class, addressee form, keyword list, separators) and
the oracle works on that tuple - it never re-parses the text."""
import itertools
from types import SimpleNamespace

from ..enum import core
from ..runner import CheckResult

PROP = 'C07'
ROBOT = 'robot'
SEPS = [' ', ', ', '.', ' - ', ':', '; ', '|', ' + ']


class ResetCalled(Exception):
    pass


class Cmt:
    __slots__ = ('author', 'text')

    def __init__(self, author, text):
        self.author, self.text = author, text


class StubPR:
    id = 7
    title = 't'

    def __init__(self, author):
        self.author = author
        self.author_display_name = author
        self.comments = []


def build_text(form, kws, sep):
    """form in {'at', 'at_colon', 'slash', 'other_user', 'none', 'lead_text',
    'lead_ws'}.  Returns (text, addressed)."""
    return _build_text(form, kws, sep)


def is_tight(kws, sep):
    """The first keyword is immediately followed by a separator other than
    a space or a comma (undocumented syntax: '@robot a|b', '/a./b')."""
    return len(kws) > 1 and sep[0] not in ' ,'


def _build_text(form, kws, sep):
    words = ['%s=%s' % (k, a) if a is not None else k for k, a in kws]
    if form == 'slash':
        return '/' + (sep + '/').join(words), True
    body = sep.join(words)
    if form == 'at':
        first = sep if sep.strip() else ' '
        return '@robot' + first + body, True
    if form == 'at_colon':
        return '@robot: ' + body, True
    if form == 'lead_ws':
        return '  \n @robot ' + body + '  \n', True
    if form == 'other_user':
        return '@robotx ' + body, False
    if form == 'lead_text':
        return 'please @robot ' + body, False
    if form == 'none':
        return body, False
    if form == 'lead_text_slash':
        return 'please do /' + (sep + '/').join(words), False
    if form == 'slash_trailing_text':
        return '/' + (sep + '/').join(words) + ' please', False
    raise ValueError(form)


def keyword_universe(options, commands):
    singles = [(k, None) for k in sorted(options)] + \
        [(k, None) for k in sorted(commands)] + \
        [('after_pull_request', '3'), ('after_pull_request', 'abc'),
         ('approve', 'x'), ('foo', None), ('bar2', None)]
    return singles


REDUCED = [('bypass_peer_approval', None), ('approve', None), ('wait', None),
           ('after_pull_request', '3'), ('help', None), ('reset', None),
           ('foo', None), ('unanimity', None), ('bypass_build_status', None)]
TINY = [('bypass_author_approval', None), ('approve', None),
        ('status', None), ('foo', None)]


def kwlists_full(options, commands):
    out = [[k] for k in keyword_universe(options, commands)]
    out += [list(p) for p in itertools.product(REDUCED, repeat=2)]
    out += [list(p) for p in itertools.product(TINY, repeat=3)]
    return out


def kwlists_small():
    out = [[k] for k in REDUCED]
    out += [list(p) for p in itertools.product(TINY, repeat=2)]
    return out


def std_cmd(t):
    """Command written the documented way: '/cmd' or '@robot[ :]*cmd'."""
    if t.startswith('/'):
        return True
    rest = t[len('@robot'):].lstrip(' :\t\n')
    return bool(rest) and (rest[0].isalpha() or rest[0] == '_')


def make_oracle(options, commands, admins, pr_author):
    """options: name -> (privileged, authored); commands: name -> exception
    class name expected when executed."""
    def expected(comments):
        """comments: list of (author, addressed, kws).  Returns
        (outcome, option dict) with outcome 'ok' or an exception name."""
        opts = {}
        for author, addressed, kws in comments:
            if not addressed:
                continue
            if kws[0][0] in commands:
                continue
            for k, arg in kws:
                if k not in options:
                    return 'UnknownCommand', opts
                priv, auth = options[k]
                if priv and not (author in admins and author != pr_author):
                    return 'NotEnoughCredentials', opts
                if auth and author != pr_author:
                    return 'NotAuthor', opts
                if k == 'after_pull_request':
                    if arg is None:
                        return 'IncorrectCommandSyntax', opts
                    if arg.isdigit():
                        opts.setdefault(k, set()).add(arg)
                else:
                    opts[k] = True if arg is None else arg
        for author, addressed, kws in reversed(comments):
            if author == ROBOT:
                break
            if addressed and kws[0][0] in commands:
                return commands[kws[0][0]], opts
        return 'ok', opts

    def loose(comments, texts):
        """Outcomes also accepted because the statement leaves them open:
        a command written with an unusual separator right after the
        addressee may be ignored; a no-argument command given arguments may
        fail.  Returns a set of acceptable outcomes (beyond expected())."""
        acc = set()
        pending = []
        for (author, addressed, kws), text in zip(comments, texts):
            if author == ROBOT:
                pending = []
                continue
            if addressed and kws[0][0] in commands:
                pending.append((kws, text))
        for kws, text in pending:
            t = text.strip()
            standard = std_cmd(t)
            if not standard:
                acc.add('IGNORED-COMMAND')
            if len(kws) > 1 and commands[kws[0][0]] == 'CommandNotImplemented':
                acc.add('TypeError')
        return acc
    expected.loose = loose
    return expected


def setup_env():
    core.import_berte()
    import bert_e.exceptions as exc
    from bert_e.workflow import gitwaterflow as gwf
    from bert_e.reactor import Reactor, Command, Option
    exc.render = lambda template, **kw: 'stub'
    gwf.setup({})

    def recorder(job, *args):
        raise ResetCalled()
    for key in ('reset', 'force_reset'):
        old = Reactor.__callbacks__[key]
        Reactor.set_callback(key, Command(recorder, old.help, old.privileged,
                                          old.authored))
    options = {k: (bool(v.privileged), bool(v.authored))
               for k, v in Reactor.get_options().items()}
    cmd_exc = {'help': 'HelpMessage', 'status': 'StatusReport',
               'reset': 'ResetCalled', 'force_reset': 'ResetCalled'}
    commands = {k: cmd_exc.get(k, 'CommandNotImplemented')
                for k in Reactor.get_commands()}
    return gwf, exc, Reactor, options, commands


def make_job(pr_author, admins):
    from bert_e.job import PullRequestJob
    from bert_e.lib.settings_dict import SettingsDict
    from bert_e.settings import UserSettingSchema
    base = SettingsDict({
        'admins': UserSettingSchema(many=True).load(list(admins)),
        'robot': UserSettingSchema().load(ROBOT),
        'pr_author_options': {}, 'pull_request_base_url': 'http://h/{pr_id}',
    })
    pr = StubPR(pr_author)
    bert_e = SimpleNamespace(settings=base, project_repo=None, git_repo=None,
                             client=SimpleNamespace(login=ROBOT))
    job = PullRequestJob(bert_e=bert_e, pull_request=pr,
                         project_repo=object(), git_repo=object())
    return job, pr


CONFIGS = [
    # (pr author, admins, author classes usable in comments)
    ('alice', ('admin',), ['alice', 'admin', 'bob', ROBOT]),
    ('admin', ('admin', 'admin2'), ['admin', 'admin2', 'bob', ROBOT]),
]


def comment_alphabet(level, options, commands, authors):
    """-> list of (author, addressed, kws, text)"""
    out = []
    if level == 'full':
        forms = ['at', 'at_colon', 'slash', 'other_user', 'none', 'lead_text',
                 'lead_ws', 'lead_text_slash', 'slash_trailing_text']
        lists = kwlists_full(options, commands)
        for a in authors:
            for form in forms:
                for n, kws in enumerate(lists):
                    seps = SEPS if len(kws) == 1 or n % 7 == 0 else \
                        [SEPS[n % len(SEPS)]]
                    if len(kws) == 1:
                        seps = SEPS if form == 'at' else [' ']
                    if form == 'slash_trailing_text':
                        # '/help please' runs help, '/foo please' and
                        # '/a|/b please' are unknown commands: the
                        # statement leaves these open
                        if kws[0][0] not in options:
                            continue
                        seps = [x for x in seps if x[0] in ' ,'] or [' ']
                    for sep in seps:
                        text, addressed = build_text(form, kws, sep)
                        out.append((a, addressed, kws, text, is_tight(kws, sep)))
    elif level == 'medium':
        lists = kwlists_small()
        for a in authors:
            for form in ('at', 'slash', 'none'):
                for n, kws in enumerate(lists):
                    sep = SEPS[n % 2]
                    text, addressed = build_text(form, kws, sep)
                    out.append((a, addressed, kws, text, is_tight(kws, sep)))
    else:
        lists = [[k] for k in TINY] + [[('bypass_peer_approval', None),
                                        ('approve', None)]]
        for a in authors:
            for form in ('at', 'none'):
                for kws in lists:
                    text, addressed = build_text(form, kws, ' ')
                    out.append((a, addressed, kws, text, False))
    return out


def check_one(p, gwf, exc, options, commands, oracle, job, pr, admins,
              combo, cfg_id):
    pr.comments = [Cmt(a, text) for a, _, _, text, _ in combo]
    job.settings.maps[0].clear()
    got_exc = None
    try:
        gwf.handle_comments(job)
        outcome = 'ok'
    except ResetCalled:
        outcome = 'ResetCalled'
    except exc.TemplateException as e:
        outcome = type(e).__name__
        got_exc = e
    except Exception as e:
        outcome = type(e).__name__
    exp_outcome, exp_opts = oracle([(a, ad, kws) for a, ad, kws, _, _ in combo])
    p.evaluations += 1
    if any(ad for _, ad, _, _, _ in combo):
        p.nontrivial += 1
    case = {'config': cfg_id, 'pr_author': pr.author,
            'admins': list(admins),
            'comments': [{'author': a, 'text': t} for a, _, _, t, _ in combo]}
    settings = job.settings.maps[0]
    # clause asserted alone: no privilege escalation, whatever the parser did
    for k, (priv, auth) in options.items():
        if priv and settings.get(k):
            ok = any(ad and a in admins and a != pr.author and
                     any(kw == k for kw, _ in kws)
                     for a, ad, kws, _, _ in combo)
            if not ok:
                p.mismatch('escalation:%s' % k,
                           'privileged option %s is on without a comment '
                           'from a non-author admin: %s' % (k, case), case)
        if auth and settings.get(k):
            ok = any(ad and a == pr.author and any(kw == k for kw, _ in kws)
                     for a, ad, kws, _, _ in combo)
            if not ok:
                p.mismatch('author-only:%s' % k,
                           'author-only option %s is on without a comment '
                           'from the author: %s' % (k, case), case)
    if outcome != exp_outcome:
        acc = oracle.loose([(a, ad, kws) for a, ad, kws, _, _ in combo],
                           [t for _, _, _, t, _ in combo])
        if outcome == 'TypeError' and 'TypeError' in acc:
            p.counters['unspecified:no-arg command given arguments -> '
                       'TypeError'] += 1
            return
        if 'IGNORED-COMMAND' in acc:
            # re-run the oracle with the loosely written commands removed
            kept = [(a, ad and not (kws[0][0] in commands and
                                    not std_cmd(t.strip())), kws)
                    for a, ad, kws, t, _ in combo]
            alt, alt_opts = oracle(kept)
            if outcome == alt:
                p.counters['unspecified:command after unusual separator '
                           'ignored'] += 1
                exp_outcome, exp_opts = alt, alt_opts
    if outcome != exp_outcome and outcome == 'UnknownCommand':
        pending = []
        for a, ad, kws, t, tight in combo:
            if a == ROBOT:
                pending = []
            elif ad and tight:
                pending.append(t)
        if pending:
            p.counters['unspecified:tight separator after first keyword '
                       '-> UnknownCommand'] += 1
            return
    if outcome != exp_outcome:
        p.mismatch('outcome:%s:%s:%s' % (exp_outcome, outcome,
                                         [t for _, _, _, t, _ in combo]),
                   'handle_comments -> %s, expected %s: %s' % (
                       outcome, exp_outcome, case), case)
        return
    if outcome == 'ok':
        for k in options:
            g = settings.get(k)
            e = exp_opts.get(k)
            if (g or None) != (e or None):
                p.mismatch('options:%s:%s' % (k, [t for _, _, _, t, _ in combo]),
                           'option %s=%r, expected %r: %s' % (k, g, e, case),
                           case)
    if len(p.samples) < 1 and len(combo) > 1 and outcome != 'ok':
        p.samples.append({'case': case, 'outcome': outcome})


def run_part(p, part, nparts, tier):
    gwf, exc, Reactor, options, commands = setup_env()
    idx = -1
    for cfg_id, (pr_author, admins, authors) in enumerate(CONFIGS):
        job, pr = make_job(pr_author, admins)
        oracle = make_oracle(options, commands, set(admins), pr_author)
        full = comment_alphabet('full', options, commands, authors)
        medium = comment_alphabet('medium', options, commands, authors)
        small = comment_alphabet('small', options, commands, authors)
        if part == 0 and cfg_id == 0:
            p.counters['alphabet_full'] = len(full)
            p.counters['alphabet_medium'] = len(medium)
            p.counters['alphabet_small'] = len(small)
        # length 1
        for c in full:
            idx += 1
            if idx % nparts == part:
                check_one(p, gwf, exc, options, commands, oracle, job, pr,
                          admins, (c,), cfg_id)
        # length 2
        second = medium if tier == 'quick' else medium
        first = medium
        if tier == 'thorough':
            first = full
        for c1 in first:
            idx += 1
            if idx % nparts != part:
                continue
            for c2 in second:
                check_one(p, gwf, exc, options, commands, oracle, job, pr,
                          admins, (c1, c2), cfg_id)
        # length 3
        for c1 in small:
            for c2 in small:
                idx += 1
                if idx % nparts != part:
                    continue
                for c3 in small:
                    check_one(p, gwf, exc, options, commands, oracle, job,
                              pr, admins, (c1, c2, c3), cfg_id)


def grants_part(p, part, nparts):
    """The parenthesis of the statement: a bypass is in effect exactly when
    an admin asked for it in a comment, or the author's *own* per-author
    entry grants it, or the command line does - never because another author
    holds it.  Effective value = the utils.bypass_* predicate the gates call."""
    import itertools
    gwf, exc, Reactor, options, commands = setup_env()
    from bert_e.workflow.gitwaterflow import utils
    from bert_e.settings import PrAuthorsOptions
    names = [n for n in PrAuthorsOptions.BYPASS_LIST if hasattr(utils, n)]
    idx = -1
    for opt in names:
        for admin_c, other_c, own, before, after, cmdline in \
                itertools.product((0, 1), repeat=6):
            idx += 1
            if idx % nparts != part:
                continue
            gwf.setup({opt: True} if cmdline else {})
            job, pr = make_job('alice', ('admin',))
            f = PrAuthorsOptions()
            data = {}
            if before:
                data['aaron'] = list(f.BYPASS_LIST)
            if own:
                data['alice'] = [opt]
            elif before and after:
                data['alice'] = []
            if after:
                data['zoe'] = list(f.BYPASS_LIST)
            job.bert_e.settings['pr_author_options'] = f.deserialize(data)
            Reactor().init_settings(job)
            pr.comments = []
            if admin_c:
                pr.comments.append(Cmt('admin', '@robot ' + opt))
            if other_c:
                # somebody else's pull request talk that names the option
                pr.comments.append(Cmt('bob', 'should we use %s here?' % opt))
            case = {'option': opt, 'admin_comment': admin_c,
                    'unaddressed_comment': other_c, 'own_entry': own,
                    'other_author_before': before, 'other_author_after':
                    after, 'command_line': cmdline}
            try:
                gwf.handle_comments(job)
            except Exception as e:
                p.mismatch('grants-exc:%s' % case,
                           'handle_comments raised %s: %s' % (
                               type(e).__name__, case), case)
                continue
            p.evaluations += 1
            p.nontrivial += 1
            for n in names:
                got = bool(getattr(utils, n)(job))
                want = n == opt and bool(admin_c or own or cmdline)
                if got != want:
                    p.mismatch('grants:%s:%s' % (n, case),
                               '%s is %s in effect, expected %s: %s' % (
                                   n, got, want, case), case)
    gwf.setup({})


def run(tier, seed, workers=None):
    cr = CheckResult(PROP, 'exploration')
    tot = core.run_parts(run_part, 64, extra=(tier,), workers=workers)
    g = core.run_parts(grants_part, 4, workers=workers)
    tot.evaluations += g.evaluations
    tot.nontrivial += g.nontrivial
    tot.mismatches += g.mismatches
    tot.error = tot.error or g.error
    tot.counters['grant_source_combinations'] = g.evaluations
    return core.fill_result(
        cr, tot,
        rule='comment = author class x addressee form (@robot, @robot:, '
             '/-form, leading whitespace, other user, leading text, none) x '
             '1-3 keywords (every registered option and command, k=v forms, '
             'unknown words) x separators; lists of 1 comment over the full '
             'alphabet, 2 over the medium (thorough: full x medium), 3 over '
             'the small one; two configurations (author not admin / author '
             'is an admin); non-trivial = at least one comment addressed to '
             'the robot',
        assumptions=['reset / force_reset handlers replaced by recorders '
                     '(their behaviour is C15)',
                     'templates stubbed (exception class is compared)'])


def replay(data):
    gwf, exc, Reactor, options, commands = setup_env()
    case = data['case']
    pr_author, admins, authors = CONFIGS[case['config']]
    job, pr = make_job(pr_author, admins)
    oracle = make_oracle(options, commands, set(admins), pr_author)
    # recover generator tuples by regenerating the alphabet
    table = {}
    for level in ('full', 'medium', 'small'):
        for c in comment_alphabet(level, options, commands, authors):
            table[(c[0], c[3])] = c
    combo = tuple(table[(c['author'], c['text'])] for c in case['comments'])
    p = core.Part()
    check_one(p, gwf, exc, options, commands, oracle, job, pr, admins, combo,
              case['config'])
    msgs = [m for _, m, _ in p.mismatches]
    return (not msgs), '\n'.join(msgs) or 'agrees with the oracle'
