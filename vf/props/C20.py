"""C20 - branch and queue admin jobs keep the repository well-formed or do
nothing.  SYS, driver ADMIN: FLOW states with 0, 1, 2 queued pull requests
(also on a hotfix branch) and after a queue merge, crossed with create_branch
for every name class x every branching point, delete_branch for every
destination, rebuild_queues and delete_queues; monitor c20 + c01."""
from ..sysmc import check
from ..sysmc.drivers import BYPASS_REVIEW

PROP = 'C20'
PR1, PR2 = 'bugfix/TEST-1', 'bugfix/TEST-2'


def admin_jobs(layout):
    froms = ['', '@development/10.0', '@development/10.0~1',
             '@bugfix/TEST-1', 'development/4.3', '@development/4.3']
    jobs = [['rebuild_queues'], ['delete_queues']]
    if layout == 'D3':
        names = ['development/4.0', 'development/5.0', 'development/4',
                 'development/10.1', 'development/11', 'development/5.1',
                 'stabilization/5.1.0', 'stabilization/7.0.0',
                 'stabilization/5.1.3', 'hotfix/4.3.0', 'feature/foo',
                 'development/6.0']
        for n in names:
            jobs.append(['create_branch', n])
        for n in ('development/5.0', 'development/10.1', 'development/4.0',
                  'stabilization/10.0.0'):
            for f in froms[1:]:
                jobs.append(['create_branch', n, f])
        for n in ('development/4.3', 'development/5.1', 'development/10.0',
                  'development/7.7', 'stabilization/4.3.18'):
            jobs.append(['delete_branch', n])
    elif layout == 'S3':
        for n in ('development/4.2', 'development/5.0', 'development/6.0',
                  'stabilization/5.1.0', 'stabilization/4.3.19',
                  'hotfix/4.3.17'):
            jobs.append(['create_branch', n])
        for n in ('stabilization/4.3.18', 'development/4.3',
                  'development/5.1'):
            jobs.append(['delete_branch', n])
    elif layout == 'H3':
        for n in ('hotfix/4.2.17', 'hotfix/4.2.16', 'development/4.2',
                  'development/5.2'):
            jobs.append(['create_branch', n])
        for n in ('hotfix/4.2.17', 'development/4.3', 'development/5.1'):
            jobs.append(['delete_branch', n])
    return jobs


def spec(name, layout, dst1, dst2, queue, depth, **kw):
    s = {'driver': 'admin', 'name': name,
         'config': {'layout': layout, 'queue': queue, 'skip_queue': False,
                    'options': BYPASS_REVIEW + ['bypass_build_status']},
         'init': [['open', PR1, dst1], ['open', PR2, dst2]],
         'monitors': ['c20', 'c01'], 'pushes': 0, 'per_q_ci': False,
         'statuses_int': [], 'statuses_q': ['SUCCESSFUL'],
         'admin_jobs': admin_jobs(layout), 'max_depth': depth}
    s.update(kw)
    return s


def hotfix_spec(depth):
    """Two pull requests on one hotfix branch, a release tag pushed between
    them (second hotfix queue q/x.y.z.2 next to the emptied q/x.y.z.1), and
    delete / re-create of the hotfix branch."""
    return spec('c20-q-H3-hotfix-queues', 'H3', 'hotfix/4.2.17',
                'hotfix/4.2.17', True, depth,
                admin_jobs=[['delete_branch', 'hotfix/4.2.17'],
                            ['create_branch', 'hotfix/4.2.17']],
                tags=[['tag', '4.2.17.1', 'hotfix/4.2.17']],
                continue_after_admin=True)


def after_merge_spec(layout, dst, depth):
    """Admin jobs in states reached after a pull request went through the
    queue and was merged (empty queue branches are left behind), with and
    without another pull request queued on a later branch."""
    return spec('c20-q-%s-after-merge' % layout, layout, None, None, True,
                depth,
                init=[['open', 'bugfix/TEST-0', dst], ['eval_pr', 1],
                      ['ci_q_all', 'SUCCESSFUL'], ['eval_pr', 1],
                      ['open', PR1, 'development/5.1'],
                      ['open', PR2, 'development/5.1']])


def recreate_spec(layout, names, depth):
    """Delete development branches, then ask for them again (archived
    versions must be refused) - admin jobs are not terminal here."""
    jobs = []
    for n in names:
        jobs += [['delete_branch', n], ['create_branch', n]]
    s = spec('c20-noq-%s-recreate' % layout, layout, names[0], names[0],
             False, depth, admin_jobs=jobs, continue_after_admin=True)
    s['init'] = []
    return s


def specs(tier):
    if tier == 'quick':
        return [spec('c20-q-D3', 'D3', 'development/4.3', 'development/5.1',
                     True, 4),
                spec('c20-noq-S3', 'S3', 'stabilization/4.3.18',
                     'development/4.3', False, 1),
                spec('c20-q-H3', 'H3', 'hotfix/4.2.17', 'development/4.3',
                     True, 3),
                hotfix_spec(6),
                recreate_spec('D3', ['development/10.0', 'development/4.3'],
                              4),
                after_merge_spec('S3', 'stabilization/4.3.18', 2)]
    return [spec('c20-q-D3', 'D3', 'development/4.3', 'development/5.1',
                 True, 5),
            spec('c20-noq-D3', 'D3', 'development/4.3', 'development/5.1',
                 False, 3),
            spec('c20-q-S3', 'S3', 'stabilization/4.3.18', 'development/4.3',
                 True, 5),
            spec('c20-noq-S3', 'S3', 'stabilization/4.3.18',
                 'development/4.3', False, 3),
            spec('c20-q-H3', 'H3', 'hotfix/4.2.17', 'development/4.3', True,
                 5),
            spec('c20-noq-H3', 'H3', 'hotfix/4.2.17', 'development/4.3',
                 False, 3),
            hotfix_spec(8),
            after_merge_spec('S3', 'stabilization/4.3.18', 4),
            after_merge_spec('D3', 'development/4.3', 4),
            after_merge_spec('H3', 'hotfix/4.2.17', 4),
            recreate_spec('D3', ['development/10.0', 'development/4.3',
                                 'development/5.1'], 6),
            recreate_spec('S3', ['development/5.1', 'stabilization/4.3.18',
                                 'development/4.3'], 6)]


def run(tier, seed, workers=None):
    return check.run_specs(
        PROP, specs(tier), seed, workers=workers, properties={PROP, 'C01'},
        required_statuses=['JobSuccess', 'JobFailure', 'Queued'],
        nontrivial_stat='c20_jobs',
        rule='BFS over queue flow (build status bypassed so that depth is '
             'spent on queue states: evaluate -> Queued, CI green on queue '
             'tips, queue evaluation -> Merged; also states reached after an '
             'earlier pull request was merged through the queue) x in every '
             'state: '
             'create_branch for names older / between / newer / existing / '
             'archived / stabilization with and without its development '
             'branch / hotfix, with branch_from absent, a branch, commits '
             'inside and outside the latest development branch; '
             'delete_branch for every destination and a missing one; '
             'rebuild_queues; delete_queues; distinct_nontrivial = admin '
             'jobs judged',
        assumptions=['mock git host; layouts D3, S3, H3'])


def replay(data):
    return check.replay_sys(data, {PROP, 'C01'})
