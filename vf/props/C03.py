"""C03 - with queues on, destination branches only advance to CI-validated
commits.  SYS exploration (driver FLOW in queue and skip-queue settings, CI
statuses in any order incl. stale reports); monitor c03 looks the new tip of
every moved destination up in the host's build-status table."""
from ..sysmc import check
from ..sysmc.drivers import BYPASS_REVIEW
from ..sysmc.world import ADMIN, AUTHOR

PROP = 'C03'
PR1, PR2 = 'bugfix/TEST-1', 'bugfix/TEST-2'


def spec(name, layout, dst1, dst2, skip=False, depth=None, **kw):
    s = {'driver': 'flow', 'name': name,
         'config': {'layout': layout, 'queue': True, 'skip_queue': skip,
                    'options': BYPASS_REVIEW},
         'init': [['open', PR1, dst1], ['open', PR2, dst2]],
         'monitors': ['c03', 'c06', 'c01'], 'pushes': 0, 'per_q_ci': True,
         'statuses_q': ['SUCCESSFUL', 'FAILED', 'INPROGRESS'],
         'max_depth': depth}
    s.update(kw)
    return s


def specs(tier):
    bypass = [[ADMIN, '@robot bypass_build_status']]
    if tier == 'quick':
        return [
            spec('q-D2', 'D2', 'development/4.3', 'development/5.1', depth=7,
                 statuses_q=['SUCCESSFUL', 'FAILED']),
            spec('skipq-D2-bypass', 'D2', 'development/4.3',
                 'development/4.3', skip=True, depth=4, comments=bypass,
                 statuses_q=['SUCCESSFUL', 'INPROGRESS'], stale=True),
            spec('q-D2-same-queued', 'D2', 'development/4.3',
                 'development/4.3', depth=4,
                 config={'layout': 'D2', 'queue': True, 'skip_queue': False,
                         'options': BYPASS_REVIEW + ['bypass_build_status']},
                 init=[['open', PR1, 'development/4.3'],
                       ['open', PR2, 'development/4.3'],
                       ['eval_pr', 1], ['eval_pr', 2]],
                 statuses_int=[], statuses_q=['SUCCESSFUL', 'FAILED']),
            spec('skipq-D2-diff', 'D2', 'development/4.3',
                 'development/5.1', skip=True, depth=5,
                 statuses_q=['SUCCESSFUL'],
                 init=[['open', PR1, 'development/4.3'],
                       ['open', PR2, 'development/5.1'],
                       ['eval_pr', 1], ['eval_pr', 2]]),
            # non-initial state: an earlier pull request went through the
            # queue (empty queue branches are left behind), then a pull
            # request that does not target the oldest branch is queued
            spec('q-D3-after-merge', 'D3', None, None, depth=3,
                 config={'layout': 'D3', 'queue': True, 'skip_queue': False,
                         'options': BYPASS_REVIEW + ['bypass_build_status']},
                 init=[['open', 'bugfix/TEST-0', 'development/4.3'],
                       ['eval_pr', 1], ['ci_q_all', 'SUCCESSFUL'],
                       ['eval_pr', 1],
                       ['open', PR1, 'development/5.1'],
                       ['open', PR2, 'development/10.0'],
                       ['eval_pr', 4], ['eval_pr', 5]],
                 statuses_int=[], statuses_q=['SUCCESSFUL', 'FAILED']),
            # a stabilization queue: single queue branches fail
            spec('q-S3-queued', 'S3', None, None, depth=3,
                 config={'layout': 'S3', 'queue': True, 'skip_queue': False,
                         'options': BYPASS_REVIEW + ['bypass_build_status']},
                 init=[['open', PR1, 'stabilization/4.3.18'],
                       ['eval_pr', 1]],
                 statuses_int=[], statuses_q=['SUCCESSFUL', 'FAILED']),
            # stacked pull requests: the second one is forked from the tip of
            # the first one's source branch
            spec('skipq-D2-stacked', 'D2', None, None, skip=True, depth=5,
                 statuses_q=['SUCCESSFUL'],
                 init=[['open', PR1, 'development/4.3'],
                       ['open', PR2, 'development/4.3', AUTHOR, None, None,
                        PR1],
                       ['eval_pr', 1], ['eval_pr', 2]]),
            # a developer commits on an integration branch (3 targets)
            spec('skipq-D3-manual', 'D3', 'development/4.3', None, skip=True,
                 depth=4, statuses_q=['SUCCESSFUL'], manual=['commit'],
                 init=[['open', PR1, 'development/4.3'], ['eval_pr', 1]]),
        ]
    out = [spec('skipq-D3-stacked', 'D3', None, None, skip=True, depth=7,
                statuses_q=['SUCCESSFUL', 'FAILED'],
                init=[['open', PR1, 'development/4.3'],
                      ['open', PR2, 'development/4.3', AUTHOR, None, None,
                       PR1]]),
           spec('q-D3-stacked', 'D3', None, None, depth=7,
                statuses_q=['SUCCESSFUL', 'FAILED'],
                init=[['open', PR1, 'development/4.3'],
                      ['open', PR2, 'development/5.1', AUTHOR, None, None,
                       PR1]]),
           spec('skipq-D3-manual', 'D3', 'development/4.3', None, skip=True,
                depth=7, statuses_q=['SUCCESSFUL', 'FAILED'],
                manual=['commit', 'revert'], pushes=1,
                init=[['open', PR1, 'development/4.3'], ['eval_pr', 1]]),
           spec('q-D3-manual', 'D3', 'development/4.3', None,
                depth=7, statuses_q=['SUCCESSFUL', 'FAILED'],
                manual=['commit', 'revert'],
                init=[['open', PR1, 'development/4.3'], ['eval_pr', 1]])]
    for layout, d1, d2 in [('D2', 'development/4.3', 'development/5.1'),
                           ('D2', 'development/4.3', 'development/4.3'),
                           ('S3', 'stabilization/4.3.18', 'development/4.3'),
                           ('H3', 'hotfix/4.2.17', 'development/4.3'),
                           ('M3', 'development/4.3', 'development/4')]:
        for skip in (False, True):
            name = '%s-%s-%s' % ('skipq' if skip else 'q', layout,
                                 'same' if d1 == d2 else 'diff')
            out.append(spec(name, layout, d1, d2, skip=skip,
                            depth=7 if layout in ('D2', 'S3') else 6,
                            statuses_q=['SUCCESSFUL', 'FAILED', 'INPROGRESS',
                                        'STOPPED', 'NOTSTARTED'],
                            stale=True, pushes=1 if skip else 0,
                            admin=[['force_merge']]))
        out.append(spec('skipq-%s-%s-bypass' % (
            layout, 'same' if d1 == d2 else 'diff'), layout, d1, d2, skip=True,
                        depth=6, comments=bypass, stale=True))
    return out


def run(tier, seed, workers=None):
    return check.run_specs(
        PROP, specs(tier), seed, workers=workers,
        required_statuses=['Merged', 'Queued', 'QueueBuildFailed'],
        nontrivial_stat='c03_dest_moved',
        rule='BFS over histories of two pull requests in queue / skip-queue '
             'mode with CI reports (per queue branch and all at once, stale '
             'reports on superseded commits) in any order; also stacked pull '
             'requests, developer commits on integration branches and a '
             'state reached after an earlier pull request went through the '
             'queue (left-over queue branches); '
             'distinct_nontrivial = destination-branch movements whose new '
             'tip was looked up in the build-status table',
        assumptions=['mock git host; build key pre-merge',
                     'with pinned commit dates a rebuilt queue commit has the '
                     'same sha as before and inherits its reported status'])


def replay(data):
    return check.replay_sys(data, {PROP})
