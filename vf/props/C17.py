"""C17 - CI results are aggregated soundly and a green verdict is never
downgraded.

(a) ENUM on the real AggregatedWorkflowRuns(...).state over every list of
    workflow runs of a bounded alphabet, in every order.
(b) explicit-state BFS over the real get_build_status / webhook handlers /
    LRUCache with a scripted HTTP session (module C17b)."""
import itertools

from ..enum import core
from ..runner import CheckResult

PROP = 'C17'
SC = [('completed', 'success'), ('completed', 'failure'),
      ('completed', 'cancelled'), ('in_progress', None), ('queued', None),
      ('pending', None)]
EVENTS = ['push', 'pull_request', 'workflow_dispatch']
RANK = {'success': 4, None: 3, 'failure': 2, 'cancelled': 1}
REPO = {'full_name': 'o/r', 'owner': {'login': 'o'}, 'name': 'r'}


def mk_run(i, event, sc, wf, branch):
    return {'id': i, 'head_sha': 'c' * 40, 'head_branch': branch,
            'status': sc[0], 'event': event, 'workflow_id': wf,
            'check_suite_id': i, 'conclusion': sc[1],
            'pull_requests': [], 'repository': REPO}


def sound(runs):
    """Reference for the soundness clause: may the state be SUCCESSFUL?
    True iff, for some choice among equally ranked best runs of each
    workflow, some head branch carries at least one considered run and all
    considered runs on it concluded with success."""
    considered = [r for r in runs if r['event'] != 'workflow_dispatch']
    if not considered:
        return False
    by_wf = {}
    for r in considered:
        by_wf.setdefault(r['workflow_id'], []).append(r)
    cands = []
    for wf, rs in by_wf.items():
        top = max(RANK[r['conclusion']] for r in rs)
        cands.append([r for r in rs if RANK[r['conclusion']] == top])
    for choice in itertools.product(*cands):
        by_branch = {}
        for r in choice:
            by_branch.setdefault(r['head_branch'], []).append(r)
        for b, rs in by_branch.items():
            if all(r['conclusion'] == 'success' for r in rs):
                return True
    return False


def alphabet(level):
    if level == 'full3':      # 3 events x 6 x 3 workflows x 2 branches
        return [(e, sc, wf, b) for e in EVENTS for sc in SC
                for wf in (1, 2, 3) for b in ('a', 'b')]
    if level == 'full2':      # the quantifier of the property
        return [(e, sc, wf, b) for e in EVENTS for sc in SC
                for wf in (1, 2) for b in ('a', 'b')]
    if level == 'reduced':
        return [(e, sc, wf, b) for e in ('push', 'workflow_dispatch')
                for sc in (SC[0], SC[1], SC[2], SC[3])
                for wf in (1, 2, 3) for b in ('a', 'b')]
    raise ValueError(level)


def plan(tier):
    """list of (alphabet level, length)"""
    if tier == 'quick':
        return [('full3', 0), ('full3', 1), ('full3', 2), ('full2', 3),
                ('reduced', 3), ('reduced', 4)]
    return [('full3', 0), ('full3', 1), ('full3', 2), ('full3', 3),
            ('full2', 4), ('reduced', 4)]


def enum_part(p, part, nparts, tier):
    core.import_berte()
    from bert_e.git_host.github import AggregatedWorkflowRuns
    idx = -1
    for level, k in plan(tier):
        alpha = alphabet(level)
        if k == 0:
            firsts = [()]
        else:
            firsts = [(a,) for a in alpha]
        for first in firsts:
            idx += 1
            if idx % nparts != part:
                continue
            for rest in itertools.product(alpha, repeat=max(k - 1, 0)):
                spec = first + rest
                runs = [mk_run(i + 1, *s) for i, s in enumerate(spec)]
                obj = AggregatedWorkflowRuns(None, _validate=False,
                                             workflow_runs=runs,
                                             total_count=len(runs))
                try:
                    state = obj.state
                except Exception as e:
                    state = 'crash:' + type(e).__name__
                p.evaluations += 1
                may = sound(runs)
                if len({s[3] for s in spec}) > 1 and \
                        any(s[1][1] == 'success' for s in spec):
                    p.nontrivial += 1
                if state == 'SUCCESSFUL':
                    p.counters['successful'] += 1
                if (state == 'SUCCESSFUL' and not may) or \
                        state.startswith('crash'):
                    case = {'runs': [list(s[:1]) + list(s[1]) + list(s[2:])
                                     for s in spec]}
                    shape = 'no-run' if not runs else \
                        'unsound-interleaved-branches'
                    if state.startswith('crash'):
                        shape = state
                    p.mismatch(shape,
                               'state=%s although on no head branch every '
                               'considered workflow succeeded: %s' % (
                                   state, case['runs']), case)
                elif may and state != 'SUCCESSFUL':
                    p.counters['green-possible-but-not-reported'] += 1
                if len(p.samples) < 1 and k == 3 and state == 'SUCCESSFUL':
                    p.samples.append({'runs': [list(map(str, s))
                                               for s in spec],
                                      'state': state})


def run(tier, seed, workers=None):
    cr = CheckResult(PROP, 'model_checking')
    tot = core.run_parts(enum_part, 128, extra=(tier,), workers=workers)
    cr = core.fill_result(
        cr, tot,
        rule='(a) every ordered list of <= 3 (quick: full alphabet of the '
             'quantifier + 3 workflow ids) / <= 4 workflow runs over event x '
             '(status, conclusion) x workflow id x head branch; '
             'non-trivial = two head branches and at least one success',
        assumptions=['(a) objects built with _validate=False from dicts of '
                     'the shape used by the pinned unit tests',
                     'best run per workflow id (any tie-break accepted)'])
    try:
        from . import C17b
    except ImportError:
        C17b = None
    if C17b is not None:
        C17b.extend(cr, tier, seed, workers)
    else:
        cr.level = 'exploration'
    return cr


def replay(data):
    core.import_berte()
    from bert_e.git_host.github import AggregatedWorkflowRuns
    case = data['case']
    if 'runs' in case:
        runs = [mk_run(i + 1, r[0], (r[1], r[2]), r[3], r[4])
                for i, r in enumerate(case['runs'])]
        obj = AggregatedWorkflowRuns(None, _validate=False,
                                     workflow_runs=runs,
                                     total_count=len(runs))
        state = obj.state
        ok = not (state == 'SUCCESSFUL' and not sound(runs))
        return ok, 'runs=%s state=%s sound=%s' % (case['runs'], state,
                                                  sound(runs))
    from . import C17b
    return C17b.replay(data)
