"""C08 - Bert-E never rewrites or deletes what it does not own.

SYS exploration with monitor c08 on every job (fast-forward-only destination
updates, foreign refs untouched, no forced push, former destination tips stay
reachable) + deviation layer: one third-party action (new branch, push to a
source branch, force-push of a source branch) immediately before each push of
each job."""
from ..sysmc import check
from ..sysmc.drivers import BYPASS_REVIEW, conflict_init
from ..sysmc.world import AUTHOR

PROP = 'C08'
PR1, PR2 = 'bugfix/TEST-1', 'bugfix/TEST-2'


def spec(name, layout, dst1, dst2, queue=True, depth=None, **kw):
    s = {'driver': 'flow_faults', 'faults': 'c08', 'name': name,
         'config': {'layout': layout, 'queue': queue, 'skip_queue': False,
                    'options': BYPASS_REVIEW},
         'init': [['open', PR1, dst1], ['open', PR2, dst2],
                  ['push', PR1]],
         'monitors': ['c08'], 'pushes': 0, 'per_q_ci': False,
         'statuses_q': ['SUCCESSFUL'], 'max_depth': depth}
    s.update(kw)
    return s


def recreate_spec(depth):
    """Delete, re-create and delete again a hotfix branch that received
    pull requests in between (monitor only, no third party)."""
    return {'driver': 'flow', 'name': 'c08-noq-H3-recreate',
            'config': {'layout': 'H3', 'queue': False, 'skip_queue': False,
                       'options': BYPASS_REVIEW + ['bypass_build_status']},
            'init': [['open', PR1, 'hotfix/4.2.17']],
            'late_open': [['open', PR2, 'hotfix/4.2.17']],
            'monitors': ['c08'], 'pushes': 0, 'statuses_int': [],
            'admin': [['delete_branch', 'hotfix/4.2.17'],
                      ['create_branch', 'hotfix/4.2.17']],
            'max_depth': depth}


def conflict_spec(queue, depth):
    """Conflicts on forward-port and between two pull requests, resolved by
    hand (integration branch created by the developer, destination merged
    into the source branch)."""
    return spec('c08-%s-D3-conflict' % ('q' if queue else 'noq'), 'D3', None,
                None, queue=queue, depth=depth, resolve=True,
                init=conflict_init(), statuses_int=[],
                config={'layout': 'D3', 'queue': queue, 'skip_queue': False,
                        'options': BYPASS_REVIEW + ['bypass_build_status']})


def specs(tier):
    reset = [[AUTHOR, '@robot reset']]
    if tier == 'quick':
        return [spec('c08-noq-D2', 'D2', 'development/4.3',
                     'development/4.3', queue=False, depth=4, decline=True),
                spec('c08-q-D2', 'D2', 'development/4.3', 'development/5.1',
                     depth=4, admin=[['delete_queues']]),
                recreate_spec(6), conflict_spec(False, 5),
                # integration branches deleted by hand while their pull
                # requests stay open, then decline
                spec('c08-noq-D2-wdeleted', 'D2', None, None, queue=False,
                     depth=3, decline=True, delete_w=True,
                     init=[['open', PR1, 'development/4.3'],
                           ['eval_pr', 1]])]
    return [spec('c08-noq-D3-wdeleted', 'D3', None, None, queue=False,
                 depth=5, decline=True, delete_w=True, comments=reset,
                 init=[['open', PR1, 'development/4.3'], ['eval_pr', 1]]),
            spec('c08-q-D3-wdeleted', 'D3', None, None, depth=5,
                 decline=True, delete_w=True,
                 init=[['open', PR1, 'development/4.3'], ['eval_pr', 1]]),
            conflict_spec(False, 8), conflict_spec(True, 8),spec('c08-noq-D2', 'D2', 'development/4.3', 'development/4.3',
                 queue=False, depth=6, decline=True, comments=reset),
            spec('c08-q-D2', 'D2', 'development/4.3', 'development/5.1',
                 depth=6, decline=True, comments=reset,
                 admin=[['delete_queues'], ['rebuild_queues'],
                        ['force_merge']]),
            spec('c08-q-S3', 'S3', 'stabilization/4.3.18', 'development/4.3',
                 depth=5, admin=[['delete_branch', 'stabilization/4.3.18'],
                                 ['delete_branch', 'development/5.1'],
                                 ['create_branch', 'development/10.0']]),
            spec('c08-noq-H3', 'H3', 'hotfix/4.2.17', 'development/4.3',
                 queue=False, depth=5,
                 admin=[['delete_branch', 'hotfix/4.2.17']]),
            recreate_spec(8)]


def run(tier, seed, workers=None):
    cr = check.run_specs(
        PROP, specs(tier), seed, workers=workers,
        required_statuses=['SuccessMessage', 'Queued'],
        nontrivial_stat='c08_deviations',
        rule='BFS over FLOW histories (incl. decline, reset, queue admin '
             'jobs, delete_branch) with the c08 monitor on every job; plus, '
             'for every job that pushes and every push of it, one re-run per '
             'third-party action {create a branch, push a commit to a source '
             'branch, force-push a source branch to its parent} placed '
             'immediately before that push; plus two environment faults per '
             'pushing job: (stale_cache) the clone cache is a mirror of the '
             'pre-state, a third party creates a new destination branch and '
             'the cache refresh of the job fails; (netfail) each command '
             'that talks to the remote fails once; distinct_nontrivial = '
             'deviation runs',
        assumptions=['the third party acts directly on the remote; one '
                     'action per job'])
    cr.coverage['evaluations'] = cr.coverage['transitions'] + \
        cr.coverage['monitor_stats'].get('c08_deviations', 0)
    return cr


def replay(data):
    return check.replay_sys(data, {PROP})
