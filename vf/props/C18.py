"""C18 - branch names are classified unambiguously and robot names
round-trip.  ENUM on branch_factory / is_cascade_producer / is_cascade_consumer
and on the name constructors reached through the real
create_integration_branches / get_queue_branch / get_queue_integration_branch.
The reference parser below is split-based and shares nothing with /repo."""
import itertools
from types import SimpleNamespace

from ..enum import core
from ..runner import CheckResult

PROP = 'C18'
FEATURE_PREFIXES = ('improvement', 'bugfix', 'feature', 'project',
                    'documentation', 'design', 'dependabot', 'epic', 'bug')
DIGITS = '0123456789'
WORD = 'abcdefghijklmnopqrstuvwxyzABCDEFGHIJKLMNOPQRSTUVWXYZ0123456789_'


# ---------------------------------------------------------------------------
# reference parser (from the naming grammar in the docs / property statement)
# ---------------------------------------------------------------------------
def is_digits(s):
    return s != '' and all(c in DIGITS for c in s)


def parse_version(s, lengths):
    parts = s.split('.')
    if len(parts) in lengths and all(is_digits(p) for p in parts):
        return tuple(int(p) for p in parts)
    return None


def jira_key(label):
    i = label.find('-')
    if i <= 0:
        return None, None
    proj = label[:i]
    if not all(c in WORD for c in proj):
        return None, None
    j = i + 1
    while j < len(label) and label[j] in DIGITS:
        j += 1
    if j == i + 1:
        return None, None
    return label[:j].upper(), proj.upper()


def parse_feature(name):
    prefix, sep, label = name.partition('/')
    if not sep or prefix not in FEATURE_PREFIXES or label == '' or \
            '\n' in label:
        return None
    key, proj = jira_key(label)
    return {'kind': 'feature', 'prefix': prefix, 'label': label,
            'feature_branch': name, 'jira_issue_key': key,
            'jira_project': proj}


def pad(v, n=4):
    return tuple(v) + (None,) * (n - len(v))


def ref_parse(name):
    """-> dict(kind=..., attributes) or None (rejected)."""
    head, sep, rest = name.partition('/')
    if not sep:
        return None
    if head == 'development':
        v = parse_version(rest, (1, 2))
        if v:
            return {'kind': 'development', 'version': rest, 'major': v[0],
                    'minor': v[1] if len(v) > 1 else None}
        return None
    if head == 'stabilization':
        v = parse_version(rest, (3,))
        if v:
            return {'kind': 'stabilization', 'version': rest, 'major': v[0],
                    'minor': v[1], 'micro': v[2]}
        return None
    if head == 'release':
        v = parse_version(rest, (2,))
        if v:
            return {'kind': 'release', 'version': rest, 'major': v[0],
                    'minor': v[1]}
        return None
    if head == 'hotfix':
        v = parse_version(rest, (3,))
        if v:
            return {'kind': 'hotfix', 'version': rest, 'major': v[0],
                    'minor': v[1], 'micro': v[2]}
        if rest != '' and '\n' not in rest:
            return {'kind': 'legacy_hotfix', 'label': rest}
        return None
    if head == 'user':
        if rest != '' and '\n' not in rest:
            return {'kind': 'user', 'label': rest}
        return None
    if head in FEATURE_PREFIXES:
        return parse_feature(name)
    if head == 'w':
        ver, sep2, feat = rest.partition('/')
        v = parse_version(ver, (1, 2, 3, 4))
        f = parse_feature(feat) if sep2 else None
        if v and f:
            d = dict(f)
            d.update({'kind': 'integration', 'version': ver,
                      'vt': pad(v), 'feature_branch': feat})
            return d
        return None
    if head == 'q':
        if rest.startswith('w/'):
            pr, sep2, tail = rest[2:].partition('/')
            ver, sep3, feat = tail.partition('/')
            v = parse_version(ver, (1, 2, 3, 4))
            f = parse_feature(feat) if sep3 else None
            if sep2 and is_digits(pr) and v and f:
                d = dict(f)
                d.update({'kind': 'queue_integration', 'pr_id': int(pr),
                          'version': ver, 'vt': pad(v),
                          'feature_branch': feat})
                return d
            return None
        v = parse_version(rest, (1, 2, 3, 4))
        if v:
            return {'kind': 'queue', 'version': rest, 'vt': pad(v)}
        return None
    return None


KIND_OF_CLASS = {
    'DevelopmentBranch': 'development', 'StabilizationBranch': 'stabilization',
    'HotfixBranch': 'hotfix', 'LegacyHotfixBranch': 'legacy_hotfix',
    'ReleaseBranch': 'release', 'FeatureBranch': 'feature',
    'IntegrationBranch': 'integration', 'QueueBranch': 'queue',
    'QueueIntegrationBranch': 'queue_integration', 'UserBranch': 'user',
}
ALLOWED_OVERLAP = {frozenset(['hotfix', 'legacy_hotfix'])}


# ---------------------------------------------------------------------------
# name grammar
# ---------------------------------------------------------------------------
VERSIONS = ['4', '4.3', '4.3.18', '4.3.18.2', '4.', '.3', '4.3.x', '04.3',
            '', '10.0', '4.3.18.2.1', '4..3', 'x.y', '4.3.18.0', '4.3-x',
            '4.3.18-rc1', '4.3_1', '4.3 ', ' 4.3', '4.3.18.2-x', 'v4.3']
LABEL_ATOMS = ['TEST-1', 'test-1', '1', '4.3', 'a.b', 'a-b', 'a_b', 'x',
               'TEST-1-foo', 'TEST-', '-1', 'T_2-30x', 'w', 'q', '',
               'w/4.3/bugfix/x', 'q/4.3', 'development/4.3', 'bugfix/y',
               'q/w/1/4.3/bugfix/z']
OTHER_PREFIXES = ['development', 'stabilization', 'hotfix', 'release', 'user',
                  'w', 'q', 'q/w', 'unknown', 'Development', 'Bugfix',
                  'bugfi', 'bugfixx', 'feature', 'bugfix']


def labels(thorough):
    out = list(LABEL_ATOMS)
    atoms = LABEL_ATOMS if thorough else LABEL_ATOMS[:12]
    for a, b in itertools.product(atoms, repeat=2):
        out.append(a + '/' + b)
    return out


def feature_names(thorough):
    labs = labels(thorough)
    return [p + '/' + lab for p in FEATURE_PREFIXES for lab in labs]


def all_names(thorough):
    seen = set()
    labs = labels(thorough)

    def emit(n):
        if n not in seen:
            seen.add(n)
            return True
        return False
    for n in ['', 'master', 'development', 'development/', '/4.3', 'w', 'q',
              'q/w', 'w/', 'q/', 'q/w/', '/', 'hotfix', 'user']:
        if emit(n):
            yield n
    for p in OTHER_PREFIXES + list(FEATURE_PREFIXES):
        for rest in VERSIONS + labs:
            n = p + '/' + rest
            if emit(n):
                yield n
    feats = [p + '/' + lab for p in ('bugfix', 'feature', 'bug', 'nope')
             for lab in (labs if thorough else LABEL_ATOMS)]
    for v in VERSIONS:
        for f in feats:
            for n in ('w/%s/%s' % (v, f), 'q/%s/%s' % (v, f)):
                if emit(n):
                    yield n
            for pr in ('1', '42', '', 'x', '-1', '007'):
                n = 'q/w/%s/%s/%s' % (pr, v, f)
                if emit(n):
                    yield n


class FakeRepo:
    """Stands for git.Repository: every branch exists, nothing is run."""
    def __init__(self):
        self.log = []

    def cmd(self, command, *args, **kw):
        self.log.append(command % args if args else command)
        return ''

    def checkout(self, name):
        self.log.append('checkout ' + name)

    def push(self, name):
        self.log.append('push ' + name)


def attrs_of(branch, kind):
    g = lambda k: getattr(branch, k, None)  # noqa
    if kind == 'development':
        return {'version': g('version'), 'major': g('major'),
                'minor': g('minor')}
    if kind in ('stabilization', 'hotfix'):
        return {'version': g('version'), 'major': g('major'),
                'minor': g('minor'), 'micro': g('micro')}
    if kind == 'release':
        return {'version': g('version'), 'major': g('major'),
                'minor': g('minor')}
    if kind in ('legacy_hotfix', 'user'):
        return {'label': g('label')}
    feat = {'prefix': g('prefix'), 'label': g('label'),
            'feature_branch': g('feature_branch'),
            'jira_issue_key': g('jira_issue_key')}
    if kind == 'feature':
        feat['jira_project'] = g('jira_project')
        return feat
    vt = (g('major'), g('minor'), g('micro'), g('hfrev'))
    if kind == 'integration':
        feat.update({'version': g('version'), 'vt': vt})
        # jira_project is not upper-cased on integration names: not compared
        return feat
    if kind == 'queue_integration':
        feat.update({'version': g('version'), 'vt': vt, 'pr_id': g('pr_id')})
        return feat
    if kind == 'queue':
        return {'version': g('version'), 'vt': vt}
    raise ValueError(kind)


def expected_attrs(ref):
    d = {k: v for k, v in ref.items() if k != 'kind'}
    if ref['kind'] in ('integration', 'queue_integration'):
        d.pop('jira_project', None)
        # w/ and q/w/ names expose the ticket key as written (the class does
        # not upper-case it); compare case-insensitively below
    return d


def classify_part(p, part, nparts, thorough):
    core.import_berte()
    from bert_e.workflow.gitwaterflow import branches as B
    from bert_e import exceptions as X
    classes = [B.StabilizationBranch, B.DevelopmentBranch, B.ReleaseBranch,
               B.QueueBranch, B.QueueIntegrationBranch, B.FeatureBranch,
               B.HotfixBranch, B.LegacyHotfixBranch, B.IntegrationBranch,
               B.UserBranch]
    repo = FakeRepo()
    kinds = set()
    for i, name in enumerate(all_names(thorough)):
        if i % nparts != part:
            continue
        p.evaluations += 1
        ref = ref_parse(name)
        try:
            br = B.branch_factory(repo, name)
            got_kind = KIND_OF_CLASS.get(type(br).__name__,
                                         type(br).__name__)
        except X.UnrecognizedBranchPattern:
            br, got_kind = None, None
        exp_kind = ref['kind'] if ref else None
        if exp_kind:
            kinds.add(exp_kind)
            p.nontrivial += 1
        case = {'name': name}
        if got_kind != exp_kind:
            p.mismatch('classify:%s' % name,
                       'branch_factory(%r) is %s, grammar says %s' % (
                           name, got_kind, exp_kind), case)
            continue
        if br is None:
            # rejected: the predicates must reject too
            for fn in (B.is_cascade_producer, B.is_cascade_consumer):
                try:
                    fn(name)
                    p.mismatch('predicate-accepts:%s' % name,
                               '%s accepts rejected name %r' % (
                                   fn.__name__, name), case)
                except X.UnrecognizedBranchPattern:
                    pass
            continue
        # every class that accepts the name
        accepting = set()
        for cls in classes:
            try:
                cls(repo, name)
                accepting.add(KIND_OF_CLASS[cls.__name__])
            except X.BranchNameInvalid:
                pass
        if len(accepting) > 1 and frozenset(accepting) not in ALLOWED_OVERLAP:
            p.mismatch('ambiguous:%s' % name,
                       '%r is accepted as several kinds: %s' % (
                           name, sorted(accepting)), case)
        got = attrs_of(br, got_kind)
        exp = expected_attrs(ref)
        for k, v in exp.items():
            g = got.get(k)
            if k == 'jira_issue_key' and got_kind != 'feature' and g and v:
                g = g.upper()
            if g != v:
                p.mismatch('attr:%s:%s' % (k, name),
                           '%r parsed with %s=%r, grammar says %r' % (
                               name, k, got.get(k), v), case)
        dest = exp_kind in ('development', 'stabilization', 'hotfix')
        if bool(br.can_be_destination) != dest:
            p.mismatch('destination:%s' % name,
                       '%r can_be_destination=%s' % (
                           name, br.can_be_destination), case)
        if bool(B.is_cascade_consumer(name)) != dest:
            p.mismatch('consumer:%s' % name, '%r is_cascade_consumer=%s' % (
                name, B.is_cascade_consumer(name)), case)
        producer = exp_kind in ('feature', 'development', 'stabilization')
        if bool(B.is_cascade_producer(name)) != producer:
            p.mismatch('producer:%s' % name, '%r is_cascade_producer=%s' % (
                name, B.is_cascade_producer(name)), case)
        if len(p.samples) < 2 and exp_kind in ('integration',
                                               'queue_integration'):
            p.samples.append({'name': name, 'kind': got_kind, 'attrs': {
                k: (list(v) if isinstance(v, tuple) else v)
                for k, v in got.items()}})
    p.counters.update({'kind:' + k: 1 for k in kinds})
    # classification is a function of the name alone: classify again in the
    # opposite order (whatever the process classified before) and compare
    mine = [n for i, n in enumerate(all_names(thorough))
            if i % nparts == part]
    first = {}
    for order in (mine, list(reversed(mine))):
        for name in order:
            try:
                k = type(B.branch_factory(repo, name)).__name__
            except X.UnrecognizedBranchPattern:
                k = None
            p.evaluations += 1
            if name in first and first[name] != k:
                p.mismatch('order-dependent:%s' % name,
                           'branch_factory(%r) is %s or %s depending on '
                           'what was classified before' % (name,
                                                           first[name], k),
                           {'name': name})
            first.setdefault(name, k)


DST_SETS = [
    ['development/4.3', 'development/5.1', 'development/10.0'],
    ['stabilization/4.3.18', 'development/4.3', 'development/4',
     'development/5.1'],
    ['development/4', 'development/10'],
    ['hotfix/4.2.17'],
]


def roundtrip_part(p, part, nparts, thorough):
    core.import_berte()
    from bert_e.workflow.gitwaterflow import branches as B
    from bert_e.workflow.gitwaterflow import integration as I
    from bert_e.workflow.gitwaterflow import queueing as Q
    from bert_e import exceptions as X
    repo = FakeRepo()
    sources = [n for n in feature_names(thorough) if ref_parse(n)]
    idx = -1
    for src_name in sources:
        for dset in DST_SETS:
            for pr_id in (1, 42):
                idx += 1
                if idx % nparts != part:
                    continue
                p.evaluations += 1
                p.nontrivial += 1
                case = {'source': src_name, 'targets': dset, 'pr_id': pr_id}
                wbranches = []
                try:
                    src = B.branch_factory(repo, src_name)
                    dsts = [B.branch_factory(repo, d) for d in dset]
                    if dset[0].startswith('hotfix/'):
                        dsts[0].hfrev = 1
                        dsts[0].version = '4.2.17.1'
                    job = SimpleNamespace(
                        git=SimpleNamespace(
                            repo=repo, src_branch=src, dst_branch=dsts[0],
                            cascade=SimpleNamespace(dst_branches=dsts)),
                        pull_request=SimpleNamespace(src_branch=src_name,
                                                     id=pr_id),
                        settings=SimpleNamespace(no_octopus=False))
                    wbranches = list(I.create_integration_branches(job))
                    assert len(wbranches) == len(dsts)
                    for wb, dst in zip(wbranches, dsts):
                        if wb is not wbranches[0]:
                            back = B.branch_factory(repo, wb.name)
                            ok = (type(back).__name__ == 'IntegrationBranch'
                                  and back.version == dst.version and
                                  back.feature_branch == src_name)
                            if not ok:
                                p.mismatch(
                                    'roundtrip-w:%s' % src_name,
                                    'integration name %r does not parse '
                                    'back to (%s, %s)' % (
                                        wb.name, dst.version, src_name), case)
                        qb = Q.get_queue_branch(job, dst)
                        backq = B.branch_factory(repo, qb.name)
                        if type(backq).__name__ != 'QueueBranch' or \
                                backq.dst_branch.name != dst.name:
                            p.mismatch('roundtrip-q:%s' % dst.name,
                                       'queue name %r does not map back to '
                                       '%s' % (qb.name, dst.name), case)
                        qi = Q.get_queue_integration_branch(job, pr_id, wb)
                        back = B.branch_factory(repo, qi.name)
                        ok = (type(back).__name__ == 'QueueIntegrationBranch'
                              and back.pr_id == pr_id and
                              back.version == dst.version and
                              back.feature_branch == src_name)
                        if not ok:
                            p.mismatch(
                                'roundtrip-qw:%s' % src_name,
                                'queue-integration name %r does not parse '
                                'back to (%d, %s, %s): got (%s, %s, %s)' % (
                                    qi.name, pr_id, dst.version, src_name,
                                    getattr(back, 'pr_id', None),
                                    getattr(back, 'version', None),
                                    getattr(back, 'feature_branch', None)),
                                case)
                        # the queue entry must sit in the queue of its target
                        if (back.major, back.minor) != (dst.major, dst.minor):
                            p.mismatch('roundtrip-qw-version:%s' % src_name,
                                       '%r version tuple differs from %s' % (
                                           qi.name, dst.name), case)
                except (X.UnrecognizedBranchPattern, X.BranchNameInvalid) \
                        as e:
                    p.mismatch('roundtrip-reject:%s' % src_name,
                               'derived name rejected: %r' % (e,), case)
                if len(p.samples) < 1:
                    p.samples.append(dict(case, derived=[
                        w.name for w in wbranches]))


NUMBERS = [0, 1, 2, 8, 10, 11, 18]
NUMBERS_T = [0, 1, 2, 8, 9, 10, 11, 18, 20, 100, 101]


def numeric_part(p, part, nparts, thorough):
    """Version numbers whose components repeat or share digits (1.1.1.1,
    10.0.0.10, 4.0.18.8, 11.1.11.1): every tuple over a small number set, for
    every robot and destination name built on it."""
    core.import_berte()
    from bert_e.workflow.gitwaterflow import branches as B
    from bert_e.workflow.gitwaterflow import queueing as Q
    from bert_e import exceptions as X
    repo = FakeRepo()
    nums = NUMBERS_T if thorough else NUMBERS
    DEST = {1: 'development/%s', 2: 'development/%s', 3: 'stabilization/%s',
            4: 'hotfix/%s'}
    idx = -1
    for n in (1, 2, 3, 4):
        for tup in itertools.product(nums, repeat=n):
            idx += 1
            if idx % nparts != part:
                continue
            ver = '.'.join(str(x) for x in tup)
            vt = pad(tup)
            base = '.'.join(str(x) for x in tup[:3])
            dest_name = DEST[n] % (base if n == 4 else ver)
            case = {'version': ver}
            checks = []
            try:
                q = B.branch_factory(repo, 'q/' + ver)
                checks.append(('q/' + ver, type(q).__name__ == 'QueueBranch'
                               and (q.major, q.minor, q.micro, q.hfrev) == vt
                               and q.dst_branch.name == dest_name and
                               type(q.dst_branch).__name__ == {
                                   1: 'DevelopmentBranch',
                                   2: 'DevelopmentBranch',
                                   3: 'StabilizationBranch',
                                   4: 'HotfixBranch'}[n],
                               'queue of %s, got %s' % (
                                   dest_name, getattr(getattr(
                                       q, 'dst_branch', None), 'name', None))))
                for name, cls in (('w/%s/bugfix/TEST-1' % ver,
                                   'IntegrationBranch'),
                                  ('q/w/7/%s/bugfix/TEST-1' % ver,
                                   'QueueIntegrationBranch')):
                    b = B.branch_factory(repo, name)
                    checks.append((name, type(b).__name__ == cls and
                                   (b.major, b.minor, b.micro, b.hfrev) == vt
                                   and b.version == ver and
                                   b.feature_branch == 'bugfix/TEST-1',
                                   'version tuple %s' % (vt,)))
                if True:
                    d = B.branch_factory(repo, dest_name)
                    want = tup[:3]
                    got = tuple(x for x in (
                        d.major, d.minor,
                        d.micro if n >= 3 else None) if x is not None)
                    checks.append((dest_name, got == want and
                                   d.version == (base if n == 4 else ver),
                                   'components %s' % (want,)))
                    # the queue Bert-E derives for this destination maps back
                    if n == 4:
                        d.hfrev = tup[3]
                        d.version = ver
                    job = SimpleNamespace(git=SimpleNamespace(repo=repo))
                    qb = Q.get_queue_branch(job, d)
                    back = B.branch_factory(repo, qb.name)
                    checks.append((qb.name, qb.name == 'q/' + ver and
                                   back.dst_branch.name == dest_name,
                                   'derived queue of %s maps back to it' %
                                   dest_name))
            except (X.UnrecognizedBranchPattern, X.BranchNameInvalid) as e:
                checks.append((ver, False, 'name rejected: %r' % (e,)))
            for name, ok, what in checks:
                p.evaluations += 1
                p.nontrivial += 1
                if not ok:
                    p.mismatch('numeric:%s' % name,
                               '%r does not parse as expected (%s)' % (
                                   name, what), dict(case, name=name))


def run(tier, seed, workers=None):
    thorough = tier == 'thorough'
    cr = CheckResult(PROP, 'exploration')
    tot = core.run_parts(classify_part, 32, extra=(thorough,),
                         workers=workers)
    tot2 = core.run_parts(roundtrip_part, 32, extra=(thorough,),
                          workers=workers)
    tot3 = core.run_parts(numeric_part, 16, extra=(thorough,),
                          workers=workers)
    kinds = sorted(k[5:] for k in tot.counters if k.startswith('kind:'))
    n_class = tot.evaluations
    tot.evaluations += tot2.evaluations + tot3.evaluations
    tot.nontrivial += tot3.nontrivial
    tot.mismatches += tot3.mismatches
    tot.error = tot.error or tot3.error
    tot.nontrivial += tot2.nontrivial
    tot.mismatches += tot2.mismatches
    tot.samples += tot2.samples
    tot.error = tot.error or tot2.error
    if len(kinds) < 10:
        cr.harness_errors.append('vacuous: kinds generated = %s' % kinds)
    return core.fill_result(
        cr, tot,
        rule='names = prefixes x version shapes x labels (ticket-like, '
             'digits, dots, dashes, underscores, nested slashes, embedded '
             'robot names) compared with a split-based reference parser; '
             'round trip through the real create_integration_branches / '
             'get_queue_branch / get_queue_integration_branch for every '
             'feature-like source x 4 target lists x 2 ids; every version '
             'tuple of length 1-4 over {0,1,2,8,10,11,18} in q/, w/, q/w/ '
             'and destination names (digit collisions); non-trivial = '
             'accepted by the grammar (classification) or any round trip',
        extra={'names_classified': n_class,
               'roundtrips': tot2.evaluations,
               'numeric_names': tot3.evaluations, 'kinds_seen': kinds},
        assumptions=['ASCII names without newline (git ref syntax)'])


def replay(data):
    core.import_berte()
    p = core.Part()
    case = data['case']
    if 'name' in case:
        global all_names
        saved = all_names
        all_names = lambda thorough: [case['name']]  # noqa
        try:
            classify_part(p, 0, 1, False)
        finally:
            all_names = saved
    else:
        global feature_names, DST_SETS
        s1, s2 = feature_names, DST_SETS
        feature_names = lambda thorough: [case['source']]  # noqa
        DST_SETS = [case['targets']]
        try:
            roundtrip_part(p, 0, 1, False)
        finally:
            feature_names, DST_SETS = s1, s2
    msgs = [m for _, m, _ in p.mismatches]
    return (not msgs), 'case: %s\n%s' % (case, '\n'.join(msgs))
