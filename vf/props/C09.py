"""C09 - target cascade, ignored branches and fix versions are computed
exactly.  ENUM on the real BranchCascade (build -> add_branch /
update_versions / _update_major_versions / finalize, then validate) against a
reference written from the statement (no regex, no code from /repo)."""
import itertools

from ..enum import core
from ..runner import CheckResult

PROP = 'C09'

DEVS = ['development/4.1', 'development/5.0', 'development/5.1',
        'development/10.0', 'development/4', 'development/5',
        'development/10']
STABS = ['stabilization/4.1.3', 'stabilization/4.1.4', 'stabilization/5.1.1',
         'stabilization/10.0.1', 'stabilization/5.0.0']
HOTFIXES = ['hotfix/4.1.2', 'hotfix/4.0.5', 'hotfix/5.1.0']
UNIVERSE = DEVS + STABS + HOTFIXES
TAGS = ['4.1.2', '4.1.3', '4.1.3-rc1', 'v5.1.0', '4.1.2.1', '5.0.1_hf2',
        '10.0.0', '4.0.5.0', '4.2.0', '5.1.0.3', '5.0.0', '4.1.2.2',
        'v4.1.2']


# ---------------------------------------------------------------------------
# reference
# ---------------------------------------------------------------------------
def nums(s):
    parts = s.split('.')
    if all(p.isdigit() for p in parts):
        return tuple(int(p) for p in parts)
    return None


def parse_tag(tag):
    t = tag[1:] if tag.startswith('v') else tag
    n = nums(t)
    if n is None or len(n) not in (3, 4):
        return None
    return n if len(n) == 4 else n + (0,)


def dev_key(v):
    # development/x.y by (x, y); development/x after every development/x.*
    return (v[0], 1, 0) if len(v) == 1 else (v[0], 0, v[1])


def reference(branches, tags, dst):
    """-> ('reject',) | ('unspecified', why) |
    ('ok', targets, ignored, versions)"""
    devs, stabs, hfs = [], {}, []
    for b in branches:
        kind, _, ver = b.partition('/')
        v = nums(ver)
        if kind == 'development':
            devs.append(v)
        elif kind == 'stabilization':
            stabs.setdefault(v[:2], []).append(v)
        else:
            hfs.append(v)
    ptags = [t for t in (parse_tag(t) for t in tags) if t]
    released = {}
    for t in ptags:
        released[t[:2]] = max(released.get(t[:2], -1), t[2])
    # ill-formed cascades
    for xy, lst in stabs.items():
        if len(lst) > 1:
            return ('reject',)
    for xy, lst in stabs.items():
        if xy not in devs:
            return ('reject',)
    dkind, _, dver = dst.partition('/')
    dv = nums(dver)
    for xy, (s,) in stabs.items():
        # only tags of release lines that exist in the repository count
        if s[2] <= released.get(xy, -1):
            return ('reject',)
    for xy, (s,) in stabs.items():
        if s[2] != released.get(xy, -1) + 1:
            return ('unspecified', 'stabilization micro is not the next '
                    'unreleased patch')
    if not devs and dkind != 'hotfix':
        return ('unspecified', 'no development branch')
    devs.sort(key=dev_key)
    all_ignorable = ['development/' + '.'.join(map(str, v)) for v in devs] + \
        ['stabilization/' + '.'.join(map(str, s)) for (s,) in stabs.values()]
    if dkind == 'hotfix':
        if tuple(dv[:2]) in stabs and stabs[tuple(dv[:2])][0][2] == dv[2]:
            return ('unspecified', 'hotfix and stabilization of one version')
        revs = [t[3] for t in ptags if t[:3] == dv]
        if not revs:
            return ('unspecified', 'hotfix branch without any x.y.z tag')
        return ('ok', [dst], sorted(all_ignorable),
                ['%d.%d.%d.%d' % (dv + (max(revs) + 1,))])
    if dkind == 'stabilization':
        first_dev = tuple(dv[:2])
    else:
        first_dev = dv
    targets, versions = [], []
    if dkind == 'stabilization':
        targets.append(dst)
        versions.append(dver)
    for v in devs:
        if dev_key(v) < dev_key(first_dev):
            continue
        targets.append('development/' + '.'.join(map(str, v)))
        if len(v) == 2:
            if dkind == 'stabilization' and v == first_dev:
                continue   # the stabilization branch speaks for this line
            nxt = released.get(v, -1) + 1
            if v in stabs:
                nxt += 1   # the patch held by the untargeted stabilization
            versions.append('%d.%d.%d' % (v[0], v[1], nxt))
        else:
            minors = [d[1] for d in devs if len(d) == 2 and d[0] == v[0]]
            minors += [t[1] for t in ptags if t[0] == v[0]]
            versions.append('%d.%d.0' % (v[0], max(minors + [-1]) + 1))
    ignored = sorted(set(all_ignorable) - set(targets))
    return ('ok', targets, ignored, versions)


# ---------------------------------------------------------------------------
# unit under test
# ---------------------------------------------------------------------------
class FakeRepo:
    def __init__(self, order, tags):
        self.order, self.tags = order, tags

    def cmd(self, command, *args, **kw):
        if command.startswith('git branch -a --list'):
            prefix = command.split('*')[1].rstrip('/')
            lines = []
            for i, b in enumerate(self.order):
                if b.startswith(prefix + '/'):
                    lines.append(('* ' if i == 0 else '  ') + b)
                    lines.append('  remotes/origin/' + b)
            return ''.join(x + '\n' for x in lines)
        if command == 'git tag':
            return ''.join(t + '\n' for t in self.tags)
        return ''     # merge-base --is-ancestor etc.: "yes"

    def checkout(self, name):
        pass


def run_real(B, X, order, tags, dst, direct):
    """direct=False: through build() (parsing of git output inside);
    direct=True: add_branch in exactly `order` (discovery order)."""
    repo = FakeRepo(order, tags)
    try:
        dstb = B.branch_factory(repo, dst)
        c = B.BranchCascade()
        if direct:
            for name in order:
                c.add_branch(B.branch_factory(repo, name), dstb)
            for t in tags:
                c.update_versions(t)
            c._update_major_versions()
            c.finalize(dstb)
        else:
            c.build(repo, dstb)
        c.validate()
        return ('ok', [b.name for b in c.dst_branches],
                list(c.ignored_branches), list(c.target_versions))
    except X.InternalException as e:
        return ('reject', type(e).__name__)
    except Exception as e:
        return ('crash', type(e).__name__ + ': ' + str(e))


def subsets(max_size):
    for n in range(1, max_size + 1):
        for s in itertools.combinations(UNIVERSE, n):
            yield s


def tagsets(max_size):
    for n in range(0, max_size + 1):
        for s in itertools.combinations(TAGS, n):
            yield s


def compare(p, real, ref, case, kind):
    if ref[0] == 'unspecified':
        p.counters['unspecified: ' + ref[1]] += 1
        return
    if ref[0] == 'reject':
        if real[0] == 'crash':
            p.counters['ill-formed cascade rejected by a crash (%s)' %
                       real[1].split(':')[0]] += 1
            return
        if real[0] != 'reject':
            p.mismatch('%s:accepts-ill-formed:%s' % (kind, case),
                       'ill-formed cascade accepted: %s -> %s' % (case,
                                                                  real),
                       case)
        return
    if real[0] != 'ok':
        p.mismatch('%s:%s:%s' % (kind, real[1], case),
                   'well-formed cascade not computed (%s): %s' % (real[1],
                                                                case), case)
        return
    for what, g, e in (('targets', real[1], ref[1]),
                       ('ignored', real[2], ref[2]),
                       ('fix versions', real[3], ref[3])):
        if g != e:
            p.mismatch('%s:%s:%s' % (kind, what, case),
                       '%s = %s, statement says %s: %s' % (what, g, e, case),
                       case)


def enum_part(p, part, nparts, tier):
    core.import_berte()
    from bert_e.workflow.gitwaterflow import branches as B
    from bert_e import exceptions as X
    max_b, max_t, max_perm = (4, 2, 4) if tier == 'quick' else (5, 3, 5)
    idx = -1
    for bs in subsets(max_b):
        idx += 1
        if idx % nparts != part:
            continue
        # (1) all tag sets x all destinations, through build()
        for ts0 in tagsets(max_t):
          # every order in which `git tag` may list them
          for ts in sorted(set(itertools.permutations(ts0))):
            for dst in bs:
                real = run_real(B, X, list(bs), list(ts), dst, False)
                ref = reference(bs, ts, dst)
                p.evaluations += 1
                if ref[0] == 'ok' and len(ref[1]) > 1:
                    p.nontrivial += 1
                case = {'branches': list(bs), 'tags': list(ts), 'dst': dst}
                compare(p, real, ref, case, 'build')
                if len(p.samples) < 1 and ref[0] == 'ok' and \
                        len(ref[1]) > 2 and ts:
                    p.samples.append({'case': case, 'targets': ref[1],
                                      'ignored': ref[2],
                                      'fix_versions': ref[3]})
        # (2) every discovery order, two tag sets, every destination
        if len(bs) <= max_perm:
            for ts in ((), ('4.1.2', 'v5.1.0', '10.0.0'), ('5.0.0', '4.2.0')):
                for dst in bs:
                    ref = reference(bs, ts, dst)
                    base = None
                    for perm in itertools.permutations(bs):
                        real = run_real(B, X, list(perm), list(ts), dst,
                                        True)
                        p.evaluations += 1
                        if real[0] == 'reject':
                            real = ('reject', 'x')
                        if base is None:
                            base = real
                            case = {'branches': list(perm), 'tags': list(ts),
                                    'dst': dst}
                            compare(p, real, ref, case, 'order')
                        elif real != base:
                            case = {'branches': list(perm), 'tags': list(ts),
                                    'dst': dst}
                            p.mismatch('order-dependent:%s' % case,
                                       'result depends on discovery order: '
                                       '%s vs %s (%s)' % (real, base, case),
                                       case)
                            break


def run(tier, seed, workers=None):
    cr = CheckResult(PROP, 'exploration')
    tot = core.run_parts(enum_part, 128, extra=(tier,), workers=workers)
    return core.fill_result(
        cr, tot,
        rule='every subset (<=4 quick, <=5 thorough) of a 15-branch universe '
             '(development x.y / x over majors 4,5,10, one or two '
             'stabilizations per line, hotfix branches) x every set of <=2 '
             '(<=3) tags from 13 released / suffixed / v-prefixed / x.y.z.n '
             'forms, listed in every order, '
             'forms x every branch as destination through build(); plus every '
             'discovery order (all permutations) through add_branch; '
             'non-trivial = accepted cascade with more than one target',
        assumptions=['git answers "is ancestor" positively (inclusion is '
                     'C01); only structure and versions are judged here',
                     'cases the statement leaves open (stabilization micro '
                     'not the next patch, hotfix without base tag) are '
                     'counted, not judged'])


def replay(data):
    core.import_berte()
    from bert_e.workflow.gitwaterflow import branches as B
    from bert_e import exceptions as X
    c = data['case']
    p = core.Part()
    for direct in (False, True):
        real = run_real(B, X, c['branches'], c['tags'], c['dst'], direct)
        ref = reference(tuple(c['branches']), tuple(c['tags']), c['dst'])
        compare(p, real, ref, c, 'replay')
    msgs = [m for _, m, _ in p.mismatches]
    return (not msgs), 'case %s\n%s' % (c, '\n'.join(msgs))
