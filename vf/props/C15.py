"""C15 - reset never silently discards manual work and only touches its own
pull request.  SYS exploration, driver RESET, with a virtual commit clock
(each event one minute after the previous one, so `git log` orders commits as
in real life)."""
from ..sysmc import check
from ..sysmc.drivers import BYPASS_REVIEW

PROP = 'C15'
PR1, PR2 = 'bugfix/TEST-1', 'bugfix/TEST-2'


def spec(name, layout, queue, seq_len, dst1, dst2, **kw):
    s = {'driver': 'reset', 'name': name,
         'config': {'layout': layout, 'queue': queue, 'skip_queue': False,
                    'options': BYPASS_REVIEW, 'clock': True},
         'init': [['open', PR1, dst1], ['open', PR2, dst2],
                  ['eval_pr', 1], ['eval_pr', 2]],
         'monitors': ['c15'], 'seq_len': seq_len,
         'max_depth': seq_len + 4}
    s.update(kw)
    return s


def id10_spec(seq_len, **kw):
    """The bystander pull request has id 10 and its integration pull
    requests ids 11, 12: ids that share a prefix with the id of the pull
    request being reset (1)."""
    init = [['open', PR1, 'development/4.3']]
    for k in range(2, 10):
        init += [['open', 'bugfix/FILL-%d' % k, 'development/10.0'],
                 ['decline', k]]
    init += [['open', PR2, 'development/4.3'],
             ['eval_pr', 1], ['eval_pr', 10]]
    s = spec('c15-noq-D3-id10', 'D3', False, seq_len, None, None, **kw)
    s['init'] = init
    s['other_pr'] = 10
    return s


def specs(tier):
    if tier == 'quick':
        return [spec('c15-noq-D3', 'D3', False, 3, 'development/4.3',
                     'development/5.1',
                     ops=['push', 'rebase', 'eval_pr', 'merge_pr2',
                          'manual']),
                id10_spec(1, ops=['push', 'eval_pr', 'merge_pr2']),
                spec('c15-noq-F3', 'F3', False, 2, 'development/4.3',
                     'development/5.1', ops=['manual', 'eval_pr']),
                # the command given twice in a row
                spec('c15-noq-D2-twice', 'D2', False, 0, 'development/4.3',
                     'development/5.1', double_reset=True, max_depth=5)]
    return [id10_spec(2),
            spec('c15-noq-D3-twice', 'D3', False, 1, 'development/4.3',
                 'development/5.1', double_reset=True, max_depth=7),
            spec('c15-noq-F3', 'F3', False, 3, 'development/4.3',
                 'development/5.1'),spec('c15-noq-D3', 'D3', False, 3, 'development/4.3',
                 'development/5.1'),
            spec('c15-q-D3', 'D3', True, 3, 'development/4.3',
                 'development/5.1'),
            spec('c15-noq-E3', 'E3', False, 2, 'development/4.3',
                 'development/5.1'),
            spec('c15-noq-S3', 'S3', False, 2, 'stabilization/4.3.18',
                 'development/4.3')]


def fingerprint(spec, v):
    import hashlib, json
    h = [e if e[0] != 'seq' else ['seq'] + [x[0] for x in e[1:]]
         for e in v.get('history', [])]
    return 'c15:%s:%s' % (spec.get('name'), hashlib.sha1(
        json.dumps(h).encode()).hexdigest()[:10])


def run(tier, seed, workers=None):
    return check.run_specs(
        PROP, specs(tier), seed, workers=workers, fingerprint=fingerprint,
        required_statuses=['ResetComplete', 'LossyResetWarning'],
        nontrivial_stat='c15_commands',
        rule='after integration branches exist for two pull requests (also '
             'with pull request ids 1 / 10-12, and on a layout whose last '
             'integration branch is a fast-forward of the previous one): every '
             'sequence (<=3) over {push, amend, rebase, '
             'rewind the source, evaluate, merge the other pull request '
             '(destination moves), manual commit on each integration branch, '
             'manual merge commit}, then reset / force_reset + the '
             'evaluation executing it + the next evaluation; '
             'distinct_nontrivial = reset commands judged',
        assumptions=['manual work = commits made by the harness on top of an '
                     'integration branch (ground truth by commit message)',
                     'virtual commit clock: one minute per event'])


def replay(data):
    return check.replay_sys(data, {PROP})
