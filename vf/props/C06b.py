"""C06 part (b): SYS exploration of histories in which the integration tips
change (new source commits, destination updates by another pull request)
between build report and evaluation; monitor c06."""
from ..sysmc import check
from ..sysmc.drivers import BYPASS_REVIEW

PR1, PR2 = 'bugfix/TEST-1', 'bugfix/TEST-2'


def spec(name, layout, dst1, dst2, queue=True, skip=False, depth=None, **kw):
    s = {'driver': 'flow_faults', 'faults': 'c06', 'name': name,
         'config': {'layout': layout, 'queue': queue, 'skip_queue': skip,
                    'options': BYPASS_REVIEW},
         'init': [['open', PR1, dst1], ['open', PR2, dst2],
                  ['eval_pr', 1], ['eval_pr', 2]],
         'monitors': ['c06'], 'pushes': 1, 'per_q_ci': False,
         'statuses_int': ['SUCCESSFUL', 'FAILED', 'INPROGRESS'],
         'statuses_q': ['SUCCESSFUL'], 'stale': True, 'max_depth': depth}
    s.update(kw)
    return s


def specs(tier):
    if tier == 'quick':
        return [spec('c06-noq-D2', 'D2', 'development/4.3',
                     'development/4.3', queue=False, depth=5, stale=False,
                     statuses_int=['SUCCESSFUL', 'FAILED']),
                spec('c06-q-D2', 'D2', 'development/4.3', 'development/5.1',
                     depth=4, statuses_int=['SUCCESSFUL', 'INPROGRESS']),
                # a developer commits on an integration branch after CI
                # reported: the new tip has no build
                spec('c06-noq-D3-manual', 'D3', 'development/4.3', None,
                     queue=False, depth=4, stale=False, pushes=0,
                     statuses_int=['SUCCESSFUL'], manual=['commit'],
                     init=[['open', PR1, 'development/4.3'],
                           ['eval_pr', 1]])]
    return [spec('c06-noq-D2', 'D2', 'development/4.3', 'development/4.3',
                 queue=False, depth=7),
            spec('c06-q-D2', 'D2', 'development/4.3', 'development/5.1',
                 depth=7),
            spec('c06-skipq-S3', 'S3', 'stabilization/4.3.18',
                 'stabilization/4.3.18', skip=True, depth=7),
            spec('c06-q-D3', 'D3', 'development/4.3', 'development/5.1',
                 depth=6,
                 statuses_int=['SUCCESSFUL', 'STOPPED', 'NOTSTARTED']),
            spec('c06-noq-D3-manual', 'D3', 'development/4.3', None,
                 queue=False, depth=6, stale=False, pushes=0,
                 statuses_int=['SUCCESSFUL', 'FAILED'],
                 manual=['commit', 'revert'],
                 init=[['open', PR1, 'development/4.3'], ['eval_pr', 1]]),
            spec('c06-q-D3-manual', 'D3', 'development/4.3', None,
                 depth=6, stale=False, pushes=0,
                 statuses_int=['SUCCESSFUL', 'FAILED'],
                 manual=['commit', 'revert'],
                 init=[['open', PR1, 'development/4.3'], ['eval_pr', 1]])]


def extend(cr, tier, seed, workers):
    cr2 = check.run_specs(
        'C06', specs(tier), seed, workers=workers,
        required_statuses=['BuildNotStarted', 'BuildFailed'],
        nontrivial_stat='c06_gate_passed', xcheck=2)
    cov = cr.coverage
    cov['enum_part_a'] = {k: cov[k] for k in ('evaluations',
                                              'distinct_nontrivial')}
    cov['sys_part_b'] = cr2.coverage
    for k in ('states', 'transitions', 'traces_validated_against_impl'):
        cov[k] = cr2.coverage[k]
    cov['evaluations'] += cr2.coverage['transitions']
    cov['distinct_nontrivial'] += cr2.coverage['distinct_nontrivial']
    cov['samples'] = list(cov['samples'])[:2] + cr2.coverage['samples'][:2]
    cov['rule'] += ' || (b) BFS over histories (push, another pull request ' \
        'moving the destination, CI reports S/F/INPROGRESS on integration ' \
        'tips, stale reports, developer commits on integration branches) ' \
        'with the c06 monitor: on Queued / direct ' \
        'merge every integration commit must be SUCCESSFUL in the host ' \
        'table; BuildNotStarted/BuildInProgress jobs must not comment; ' \
        'non-trivial = transitions on which the gate let a pull request ' \
        'through; on each such transition the job is re-run with a commit ' \
        'pushed to the source branch right after Bert-E\'s clone (the ' \
        'stale tip must be noticed)'
    cov['exhaustive'] = bool(cov.get('exhaustive')) and \
        bool(cr2.coverage.get('exhaustive'))
    cr.violations += cr2.violations
    cr.harness_errors += cr2.harness_errors
    cr.assumptions += cr2.assumptions
    cr.level = 'model_checking'
