"""C10 - re-evaluation converges, never spams, and commands run once.

SYS exploration (driver REPEAT): in every reachable state, every evaluation is
delivered four times in a row on the long-lived instance; the fourth must
change nothing, no message may appear twice in a row, a command comment is
executed at most once.  Independence from earlier jobs is checked by replaying
explored histories in fresh processes (state keys and job statuses must be
identical step by step)."""
from ..sysmc import check
from ..sysmc.drivers import BYPASS_REVIEW, conflict_init
from ..sysmc.world import AUTHOR, PEER1

PROP = 'C10'
PR1, PR2 = 'bugfix/TEST-1', 'bugfix/TEST-2'


def spec(name, layout, prs, queue=False, depth=None, options=BYPASS_REVIEW,
         cfg=None, **kw):
    config = {'layout': layout, 'queue': queue, 'skip_queue': False,
              'options': list(options)}
    config.update(cfg or {})
    s = {'driver': 'repeat', 'name': name, 'config': config,
         'init': [['open', src, dst] for src, dst in prs],
         'monitors': [], 'pushes': 0, 'per_q_ci': False,
         'statuses_q': ['SUCCESSFUL', 'FAILED'], 'max_depth': depth}
    s.update(kw)
    return s


def backport_spec(queue, depth):
    """A fix already merged on the later versions is proposed, from the
    same source branch, to an earlier one: its integration branches are born
    in sync with what the destinations contain (integration pull requests
    off: the mock host would show them merged at once)."""
    init = [['open', PR1, 'development/5.1', AUTHOR, None, None,
             'development/4.3'], ['approve', 1, PEER1], ['eval_pr', 1],
            ['ci_int', 1, 'SUCCESSFUL'], ['eval_pr', 1]]
    if queue:
        init += [['ci_q_all', 'SUCCESSFUL'], ['eval_pr', 1]]
    init += [['open_raw', PR1, 'development/4.3']]
    return spec('c10-backport-%s-D3' % ('q' if queue else 'noq'), 'D3', [],
                queue=queue, depth=depth, options=['bypass_jira_check'],
                cfg={'int_prs': False, 'peers': 1, 'need_author': False},
                approvers=[PEER1], init=init, statuses_q=['SUCCESSFUL'])


def conflict_spec(queue, depth):
    """Conflict reports must not be repeated either, and the evaluation
    after a manual resolution must converge."""
    return spec('c10-conflict-%s-D3' % ('q' if queue else 'noq'), 'D3', [],
                queue=queue, depth=depth, resolve=True,
                options=BYPASS_REVIEW + ['bypass_build_status'],
                init=conflict_init(), statuses_int=[],
                statuses_q=['SUCCESSFUL'])


def specs(tier):
    cmds = [[AUTHOR, '@robot reset', 2], [AUTHOR, '@robot help', 1],
            [PEER1, '@robot bypass_peer_approval', 1],
            [AUTHOR, '@robot foo', 1]]
    out = [
        spec('c10-commands-noq-D2', 'D2', [(PR1, 'development/4.3')],
             depth=6 if tier == 'quick' else 8,
             comments=cmds if tier != 'quick' else cmds[:2] + cmds[3:],
             eval_int_commits=tier != 'quick'),
        spec('c10-review-q-D2', 'D2', [(PR1, 'development/4.3')], queue=True,
             depth=5 if tier == 'quick' else 8,
             options=['bypass_jira_check'],
             cfg={'peers': 1, 'need_author': False},
             approvers=[PEER1], change_requesters=['carol'],
             statuses_int=['SUCCESSFUL', 'FAILED'], decline=True,
             eval_int_commits=True),
        backport_spec(True, 2 if tier == 'quick' else 4),
        conflict_spec(False, 4 if tier == 'quick' else 7),
    ]
    if tier == 'thorough':
        out += [
            backport_spec(False, 4),
            conflict_spec(True, 7),
            spec('c10-two-prs-q-S3', 'S3',
                 [(PR1, 'stabilization/4.3.18'), (PR2, 'development/4.3')],
                 queue=True, depth=7, eval_int_commits=True,
                 eval_children=True),
            spec('c10-commands-q-D2', 'D2', [(PR1, 'development/4.3')],
                 queue=True, depth=7, comments=cmds[:2] + [
                     [AUTHOR, '@robot status', 1]]),
        ]
    return out


def run(tier, seed, workers=None):
    cr = check.run_specs(
        PROP, specs(tier), seed, workers=workers, xcheck=6,
        required_statuses=['ResetComplete', 'HelpMessage', 'ApprovalRequired',
                           'UnknownCommand'],
        nontrivial_stat='c10_repeats',
        rule='BFS over histories with command comments (reset x2, help, '
             'unknown word, privileged option by a non-admin), reviews, CI '
             'verdicts, decline, a backport of an already forwarded fix '
             '(integration branches born in sync), merge conflicts resolved '
             'by hand; on every job transition the same evaluation '
             'is delivered 4 times on the long-lived instance; '
             'distinct_nontrivial = repeated evaluations',
        assumptions=['a job enqueued by an evaluation is processed right '
                     'after it', 'independence from earlier jobs = explored '
                     'paths replayed in fresh processes give identical state '
                     'keys and job statuses'])
    cr.coverage['evaluations'] = cr.coverage['transitions'] + 3 * \
        cr.coverage['monitor_stats'].get('c10_repeats', 0)
    # For this property a divergence between the long-lived explorer and a
    # fresh process *is* the violation ("the outcome does not depend on which
    # jobs the same instance processed before"); the unchanged tree never
    # diverges.
    keep = []
    for e in cr.harness_errors:
        if e.startswith('NONDETERMINISM'):
            cr.add_violation(
                'a fresh process and the long-lived instance disagree: ' + e,
                'depends-on-earlier-jobs',
                {'engine': 'sys', 'driver': specs(tier)[0], 'history': [],
                 'note': e})
        else:
            keep.append(e)
    cr.harness_errors = keep
    return cr


def replay(data):
    return check.replay_sys(data, {PROP})
