"""C14 - HTTP entry points enqueue work only for authorised callers.

ENUM with the Flask test client on the real setup_server(bert_e): every rule
of app.url_map under /api and /form x HTTP method x session state x
well-formed / ill-formed parameters; both webhook routes x credentials x
repository identity x handled / unhandled event types, for a Bitbucket- and a
GitHub-configured instance.  Oracle: a table derived from the statement."""
import base64
import collections
import copy
import json
import os
import re
from types import SimpleNamespace

from ..enum import core
from ..runner import CheckResult

PROP = 'C14'
ADMIN, USER = 'test_admin', 'test_user'
METHODS = ['GET', 'POST', 'PUT', 'PATCH', 'DELETE']

# (endpoint name, method, rule, admin only, job class name or None)
TABLE = {
    'CreateBranch': ('POST', True, 'CreateBranchJob'),
    'DeleteBranch': ('DELETE', True, 'DeleteBranchJob'),
    'ForceMergeQueues': ('PATCH', True, 'ForceMergeQueuesJob'),
    'DeleteQueues': ('DELETE', True, 'DeleteQueuesJob'),
    'RebuildQueues': ('POST', False, 'RebuildQueuesJob'),
    'EvalPullRequest': ('POST', False, 'EvalPullRequestJob'),
    'GetJob': ('GET', False, None),
    'ListJobs': ('GET', False, None),
}
BRANCHES_OK = ['development/4.3', 'stabilization/4.3.18', 'hotfix/10.0.1']
BRANCHES_BAD = ['development/4', 'development/4.3.1', 'stabilization/4.3',
                'hotfix/4.3', 'feature/x', 'development/4.3%0A',
                'xdevelopment/4.3', 'development/4.3/x', 'q/4.3',
                'development/a.b']
FROM_OK = [None, 'abcdef0123', 'development/4.3', '']
FROM_BAD = ['x y', 'development/4', 'zzz', 'development/4.3;rm']


def build_app(host):
    core.import_berte()
    from bert_e import bert_e as B
    from bert_e.lib.settings_dict import SettingsDict
    from bert_e.settings import UserSettingSchema
    from bert_e import server
    from queue import Queue
    os.environ.update({'WEBHOOK_LOGIN': 'hook', 'WEBHOOK_PWD': 'hookpw',
                       'BERT_E_CLIENT_ID': 'cid',
                       'BERT_E_CLIENT_SECRET': 'csecret'})

    class Client:
        login = 'robot'

        def get(self, url, **kw):
            if 'actions/runs' in url:
                return {'total_count': 0, 'workflow_runs': []}
            return GH_PR

    class MockBertE(B.BertE):
        def __init__(self):
            self.client = Client()
            self.project_repo = SimpleNamespace(
                owner='test_owner', slug='test_repo',
                full_name='test_owner/test_repo')
            self.settings = SettingsDict({
                'repository_host': host, 'repository_owner': 'test_owner',
                'repository_slug': 'test_repo', 'build_key': 'pre-merge',
                'pull_request_base_url': 'http://h/{pr_id}',
                'commit_base_url': 'http://h/{commit_id}',
                'admins': UserSettingSchema(many=True).load([ADMIN]),
                'organization': '', 'pr_author_options': {}})
            self.git_repo = SimpleNamespace()
            self.task_queue = Queue()
            self.tasks_done = collections.deque(maxlen=1000)
            self.status = {}
    b = MockBertE()
    try:
        app = server.setup_server(b)
    finally:
        for k in ('BERT_E_CLIENT_ID', 'BERT_E_CLIENT_SECRET'):
            os.environ.pop(k, None)
    return app, b


def client_for(app, user):
    c = app.test_client()
    if user is not None:
        with c.session_transaction() as s:
            s['user'] = user
            s['admin'] = user == ADMIN
    return c


def pending(b):
    return list(b.task_queue.queue)


def drain(b):
    with b.task_queue.mutex:
        b.task_queue.queue.clear()


GH_REPO = {'name': 'test_repo', 'full_name': 'test_owner/test_repo',
           'owner': {'id': 1, 'login': 'test_owner'}}
GH_PR = {'number': 5, 'state': 'open', 'title': 't', 'body': '',
         'url': 'https://api.github.com/repos/test_owner/test_repo/pulls/5',
         'user': {'id': 2, 'login': 'alice'},
         'head': {'ref': 'bugfix/x', 'sha': 'a' * 40, 'repo': GH_REPO},
         'base': {'ref': 'development/4.3', 'sha': 'b' * 40,
                  'repo': GH_REPO}}


def github_events():
    """(event header, payload without repository, creates a job?)"""
    return [
        ('pull_request', {'action': 'opened', 'number': 5,
                          'pull_request': GH_PR}, True),
        ('pull_request', {'action': 'closed', 'number': 5,
                          'pull_request': GH_PR}, False),
        ('pull_request_review', {'action': 'submitted',
                                 'pull_request': GH_PR}, True),
        ('issue_comment', {'action': 'created', 'issue': {
            'number': 5, 'title': 't', 'pull_request': {
                'url': GH_PR['url']}}}, True),
        ('issue_comment', {'action': 'created', 'issue': {
            'number': 6, 'title': 'plain issue'}}, False),
        ('status', {'sha': 'c' * 40, 'state': 'success',
                    'context': 'pre-merge', 'description': None,
                    'target_url': None}, True),
        ('status', {'sha': 'c' * 40, 'state': 'pending',
                    'context': 'pre-merge', 'description': None,
                    'target_url': None}, False),
        ('check_suite', {'action': 'completed', 'check_suite': {
            'id': 1, 'head_sha': 'd' * 40, 'head_branch': 'q/4.3',
            'status': 'completed', 'conclusion': 'success'}}, True),
        ('push', {'ref': 'refs/heads/x'}, False),
        ('ping', {'zen': 'x'}, False),
    ]


def bitbucket_events():
    from bert_e.tests import test_server_data as D
    status = copy.deepcopy(D.COMMIT_STATUS_CREATED)
    done = copy.deepcopy(status)
    done['commit_status']['state'] = 'SUCCESSFUL'
    return [
        ('pullrequest:comment_created', D.COMMENT_CREATED, True),
        ('pullrequest:updated', D.COMMENT_CREATED, True),
        ('repo:commit_status_created', status, False),   # INPROGRESS
        ('repo:commit_status_updated', done, True),
        ('repo:push', D.COMMENT_CREATED, False),
        ('issue:created', D.COMMENT_CREATED, False),
    ]


def basic(user, pw):
    return 'Basic ' + base64.b64encode(('%s:%s' % (user, pw)).encode()
                                       ).decode()


CREDS = [('none', None), ('wrong user', basic('x', 'hookpw')),
         ('wrong password', basic('hook', 'nope')),
         ('login/password split elsewhere', basic('hoo', 'khookpw')),
         ('everything in the password', basic('', 'hookhookpw')),
         ('everything in the login', basic('hookhookpw', '')),
         ('swapped', basic('hookpw', 'hook')),
         ('password prefix', basic('hook', 'hookp')),
         ('other case', basic('Hook', 'hookpw')),
         ('bearer token', 'Bearer hookpw'),
         ('right', basic('hook', 'hookpw'))]


def check_webhooks(p, host):
    app, b = build_app(host)
    route = '/' + host
    events = bitbucket_events() if host == 'bitbucket' else github_events()
    for ev, payload, creates in events:
        for ident in ('match', 'other owner', 'other slug', 'no repository',
                      'empty identity'):
            data = copy.deepcopy(payload)
            if host == 'bitbucket':
                repo = copy.deepcopy(data.get('repository', {}))
                repo.setdefault('owner', {})
                repo['owner']['username'] = 'test_owner' \
                    if ident != 'other owner' else 'evil_owner'
                repo['name'] = 'test_repo' if ident != 'other slug' \
                    else 'other_repo'
                data['repository'] = repo
                if ident == 'no repository':
                    data.pop('repository')
                elif ident == 'empty identity':
                    data['repository'] = {'owner': {'username': ''},
                                          'name': ''}
            else:
                repo = copy.deepcopy(GH_REPO)
                if ident == 'other owner':
                    repo['full_name'] = 'evil_owner/test_repo'
                    repo['owner'] = {'id': 9, 'login': 'evil_owner'}
                elif ident == 'other slug':
                    repo['full_name'] = 'test_owner/other_repo'
                    repo['name'] = 'other_repo'
                data['repository'] = repo
                if ident == 'no repository':
                    data.pop('repository')
                elif ident == 'empty identity':
                    data['repository'] = {'full_name': '', 'name': '',
                                          'owner': {'id': 1, 'login': ''}}
            for cname, auth in CREDS:
                drain(b)
                from bert_e.git_host import cache
                cache.BUILD_STATUS_CACHE.clear()
                headers = {'X-Event-Key': ev, 'X-Github-Event': ev,
                           'Content-Type': 'application/json'}
                if auth:
                    headers['Authorization'] = auth
                c = app.test_client()
                resp = c.post(route, data=json.dumps(data), headers=headers)
                jobs = pending(b)
                p.evaluations += 1
                allowed = cname == 'right' and ident == 'match'
                case = {'route': route, 'event': ev, 'identity': ident,
                        'credentials': cname, 'creates': creates}
                if not allowed or not creates:
                    p.nontrivial += 1
                if allowed and creates:
                    if len(jobs) != 1 or resp.status_code >= 400:
                        p.mismatch('webhook-lost:%s' % case,
                                   'handled event not enqueued: %s -> %d, '
                                   '%d jobs' % (case, resp.status_code,
                                                len(jobs)), case)
                else:
                    if jobs:
                        p.mismatch('webhook-enqueued:%s:%s:%s' % (
                            route, ident, cname),
                            'webhook enqueued %s although it should be '
                            'refused/ignored: %s' % (
                                [type(j).__name__ for j in jobs], case),
                            case)
                    if not allowed and resp.status_code < 400:
                        p.mismatch('webhook-accepted:%s:%s:%s' % (
                            route, ident, cname),
                            'webhook answered %d instead of an error: %s' % (
                                resp.status_code, case), case)
    # the other host's route must refuse everything
    other = '/github' if host == 'bitbucket' else None
    if other:
        drain(b)
        resp = app.test_client().post(
            other, data=json.dumps({'repository': GH_REPO}),
            headers={'X-Github-Event': 'status',
                     'Authorization': CREDS[-1][1]})
        p.evaluations += 1
        if pending(b) or resp.status_code < 400:
            p.mismatch('github-route-on-bitbucket',
                       'GitHub webhook accepted by a Bitbucket instance',
                       {'route': other})


def api_requests(app):
    """Every (rule, method, parameters) to try; yields dicts."""
    rules = [r for r in app.url_map.iter_rules()
             if r.rule.startswith('/api') or r.rule.startswith('/form')]
    for r in rules:
        ep = r.endpoint.split('.')[0]
        if r.rule.startswith('/form'):
            continue     # forms are exercised by check_forms
        variants = []
        if '<path:branch>' in r.rule:
            for br in BRANCHES_OK:
                for fr in FROM_OK:
                    variants.append((r.rule.replace('<path:branch>', br),
                                     None if fr is None else
                                     {'branch_from': fr}, True,
                                     {'branch': br}))
            for br in BRANCHES_BAD:
                variants.append((r.rule.replace('<path:branch>', br), None,
                                 False, {'branch': br}))
            for br in BRANCHES_OK:
                for fr in FROM_BAD:
                    variants.append((r.rule.replace('<path:branch>', br),
                                     {'branch_from': fr}, 'from_bad',
                                     {'branch': br}))
        elif '<int:pr_id>' in r.rule:
            for pid, ok in (('1', True), ('42', True), ('0', False),
                            ('-1', False), ('a', False)):
                variants.append((r.rule.replace('<int:pr_id>', pid), None,
                                 ok, {'pr_id': int(pid) if pid.lstrip(
                                     '-').isdigit() else pid}))
        elif '<string:job_id>' in r.rule:
            variants.append((r.rule.replace('<string:job_id>', 'nope'), None,
                             True, {}))
        else:
            variants.append((r.rule, None, True, {}))
            variants.append((r.rule, {'unexpected': 'value'}, 'extra', {}))
        for url, body, ok, kwargs in variants:
            for method in METHODS:
                yield {'rule': r.rule, 'endpoint': ep, 'url': url,
                       'method': method, 'json': body, 'valid': ok,
                       'kwargs': kwargs, 'rule_methods': sorted(
                           m for m in r.methods if m in METHODS)}


def check_api(p, host):
    app, b = build_app(host)
    seen_rules = set()
    for req in api_requests(app):
        seen_rules.add((req['rule'], tuple(req['rule_methods'])))
        for user in (None, USER, ADMIN):
            drain(b)
            c = client_for(app, user)
            headers = {'Content-Type': 'application/json',
                       'Accept': 'application/json'}
            resp = c.open(req['url'], method=req['method'],
                          data=json.dumps(req['json'] or {}),
                          headers=headers)
            jobs = pending(b)
            p.evaluations += 1
            # which registered endpoint (if any) is addressed?
            target = None
            for name, (m, admin, jobcls) in TABLE.items():
                if name == req['endpoint'] and m == req['method']:
                    target = (name, admin, jobcls)
            # several endpoints share a rule: match by rule + method
            if target is None:
                for r in app.url_map.iter_rules():
                    name = r.endpoint.split('.')[0]
                    if r.rule == req['rule'] and name in TABLE and \
                            TABLE[name][0] == req['method']:
                        target = (name, TABLE[name][1], TABLE[name][2])
            creates = bool(target and target[2])
            authorised = user is not None and (
                not (target and target[1]) or user == ADMIN)
            valid = req['valid'] in (True, 'extra') or (
                req['valid'] == 'from_bad' and req['method'] != 'POST')
            expect_job = creates and authorised and valid
            case = {k: req[k] for k in ('url', 'method', 'json')}
            case['session'] = user
            if not expect_job:
                p.nontrivial += 1
            if expect_job:
                if len(jobs) != 1 or resp.status_code != 202:
                    p.mismatch('api-not-enqueued:%s %s' % (req['method'],
                                                           req['rule']),
                               'authorised valid request not enqueued: %s '
                               '-> %d, %d jobs' % (case, resp.status_code,
                                                   len(jobs)), case)
                    continue
                job = jobs[0]
                if type(job).__name__ != target[2]:
                    p.mismatch('api-wrong-job:%s' % target[0],
                               '%s created %s' % (case,
                                                  type(job).__name__), case)
                if job.user != user:
                    p.mismatch('api-wrong-user:%s' % target[0],
                               'job.user=%r for session %r' % (job.user,
                                                               user), case)
                want = dict(req['kwargs'])
                want.update({k: v for k, v in (req['json'] or {}).items()
                             if k == 'branch_from' and
                             req['method'] == 'POST'})
                got = dict(job.settings.maps[0])
                if got != want:
                    p.mismatch('api-settings:%s:%s' % (
                        target[0], sorted(set(got) ^ set(want))),
                        'job of %s carries %r, validated parameters are %r'
                        % (case, got, want), case)
            else:
                if jobs:
                    why = 'no session' if user is None else (
                        'not admin' if not authorised else (
                            'invalid parameters' if not valid
                            else 'no such endpoint'))
                    p.mismatch('api-enqueued:%s:%s %s' % (
                        why, req['method'], req['rule']),
                        '%s enqueued %s although %s' % (
                            case, [type(j).__name__ for j in jobs], why),
                        case)
                should_fail = (not authorised) or (not valid) or \
                    target is None
                if should_fail and resp.status_code < 400 and \
                        not (target and not target[2] and authorised):
                    p.mismatch('api-accepted:%s %s' % (req['method'],
                                                       req['rule']),
                               '%s answered %d instead of an error' % (
                                   case, resp.status_code), case)
    p.counters['api_rules'] = len(seen_rules)


def check_forms(p, host):
    """form -> API -> job, the form view's HTTP call looped back into the
    same application."""
    app, b = build_app(host)
    from bert_e.server.api import base as apibase

    def loopback(method, url, json=None, headers=None):
        c = app.test_client()
        path = re.sub(r'^https?://[^/]+', '', url)
        for k, v in (headers or {}).items():
            if k.lower() == 'cookie':
                for part in v.split(';'):
                    name, _, val = part.strip().partition('=')
                    c.set_cookie('localhost', name, val)
        resp = c.open(path, method=method, json=json,
                      headers={'Content-Type': 'application/json'})
        return SimpleNamespace(status_code=resp.status_code)
    orig = apibase.requests.request
    apibase.requests.request = loopback
    try:
        forms = {
            'CreateBranchForm': ('CreateBranchJob', True, [
                ({'branch': 'development/4.3', 'branch_from': ''}, True),
                ({'branch': 'development/4.3',
                  'branch_from': 'abc123'}, True),
                ({'branch': 'development/4'}, False),
                ({'branch': 'development/4.3', 'branch_from': 'x y'},
                 False),
                ({}, False)]),
            'DeleteBranchForm': ('DeleteBranchJob', True, [
                ({'branch': 'hotfix/1.2.3'}, True),
                ({'branch': 'feature/x'}, False)]),
            'ForceMergeQueuesForm': ('ForceMergeQueuesJob', True,
                                     [({}, True)]),
            'DeleteQueuesForm': ('DeleteQueuesJob', True, [({}, True)]),
            'RebuildQueuesForm': ('RebuildQueuesJob', False, [({}, True)]),
            'EvalPullRequestForm': ('EvalPullRequestJob', False, [
                ({'pr_id': '3'}, True), ({'pr_id': '0'}, False),
                ({'pr_id': 'abc'}, False)]),
        }
        registered = {r.rule.split('/')[-1] for r in
                      app.url_map.iter_rules() if r.rule.startswith('/form')}
        if registered != set(forms):
            p.mismatch('forms-table', 'registered forms %s, oracle knows %s'
                       % (sorted(registered), sorted(forms)), {})
        for name, (jobcls, admin, datas) in forms.items():
            for data, valid in datas:
                for user in (None, USER, ADMIN):
                    for csrf in ('own', 'none'):
                        drain(b)
                        c = client_for(app, user)
                        token = None
                        if user is not None and csrf == 'own':
                            page = c.get('/manage').get_data(as_text=True)
                            m = re.search(r'name="csrf_token" type="hidden"'
                                          r' value="([^"]*)"', page)
                            token = m.group(1) if m else None
                        form = dict(data)
                        if token:
                            form['csrf_token'] = token
                        resp = c.post('/form/' + name, data=form)
                        jobs = pending(b)
                        p.evaluations += 1
                        authorised = user is not None and (
                            not admin or user == ADMIN)
                        expect = authorised and valid and token is not None
                        case = {'form': name, 'data': data, 'session': user,
                                'csrf': csrf}
                        if not expect:
                            p.nontrivial += 1
                        if expect:
                            if len(jobs) != 1 or \
                                    type(jobs[0]).__name__ != jobcls or \
                                    jobs[0].user != user:
                                p.mismatch('form-not-enqueued:' + name,
                                           'form did not create the job: '
                                           '%s -> %d, jobs %s' % (
                                               case, resp.status_code,
                                               [type(j).__name__
                                                for j in jobs]), case)
                        else:
                            if jobs:
                                p.mismatch('form-enqueued:%s:%s:%s' % (
                                    name, user, csrf),
                                    'form enqueued %s: %s' % (
                                        [type(j).__name__ for j in jobs],
                                        case), case)
                            if not authorised and resp.status_code < 400:
                                p.mismatch('form-accepted:%s:%s' % (name,
                                                                    user),
                                           'form answered %d to an '
                                           'unauthorised caller: %s' % (
                                               resp.status_code, case),
                                           case)
    finally:
        apibase.requests.request = orig


def part_fn(p, part, nparts, tier):
    jobs = [(check_api, 'bitbucket'), (check_api, 'github'),
            (check_forms, 'bitbucket'), (check_webhooks, 'bitbucket'),
            (check_webhooks, 'github')]
    for i, (fn, host) in enumerate(jobs):
        if i % nparts == part:
            fn(p, host)
            if not p.samples:
                p.samples.append({'group': fn.__name__, 'host': host})


def run(tier, seed, workers=None):
    cr = CheckResult(PROP, 'exploration')
    tot = core.run_parts(part_fn, 5, extra=(tier,), workers=workers)
    return core.fill_result(
        cr, tot,
        rule='every rule registered under /api (read from app.url_map) x '
             '{GET, POST, PUT, PATCH, DELETE} x session {none, user, admin} '
             'x parameters (3 valid and 10 invalid branch names, 4 valid and '
             '4 invalid branch_from, pr ids 1, 42, 0, -1, a, an unexpected '
             'JSON key); every management form x session x data x CSRF token '
             '(own, none) with the form-to-API call looped back; both '
             'webhook routes x credentials {none, wrong user, wrong '
             'password, same characters split differently between login and '
             'password, swapped, prefix, other case, bearer, right} x repository {match, other owner, other '
             'slug} x handled and unhandled events, for a Bitbucket- and a '
             'GitHub-configured instance; non-trivial = cells where the '
             'statement demands a refusal or no job',
        assumptions=['sessions are set the way the pinned test_server does '
                     '(session_transaction)',
                     'GitHub client stubbed for the two events that fetch '
                     'data (issue_comment, check_suite)'])


def replay(data):
    return False, 'enum case (re-run the check): %s' % data['case']
