"""C19 - integration branches and pull requests are kept one-to-one with
their pull request.  SYS exploration, driver CHILD: PR events, events on child
pull requests and commit events on every source / w/ / q/ tip in every order
and multiplicity, then decline or merge; monitor c19 after every transition +
redirect differential (an event on a child PR or on an integration commit
must end in the same state as the event on the parent)."""
from ..sysmc import check
from ..sysmc.drivers import BYPASS_REVIEW, conflict_init
from ..sysmc.world import AUTHOR

PROP = 'C19'
PR1, PR2 = 'bugfix/TEST-1', 'bugfix/TEST-2'


def spec(name, layout, prs, queue=False, depth=None, int_prs=True,
         int_branches=True, **kw):
    s = {'driver': 'child', 'name': name,
         'config': {'layout': layout, 'queue': queue, 'skip_queue': False,
                    'options': BYPASS_REVIEW, 'int_prs': int_prs,
                    'int_branches': int_branches},
         'init': [['open', src, dst] for src, dst in prs],
         'monitors': ['c19'], 'pushes': 1, 'per_q_ci': False,
         'statuses_q': ['SUCCESSFUL'], 'eval_children': True,
         'eval_int_commits': True, 'decline': True, 'max_depth': depth}
    s.update(kw)
    return s


def conflict_spec(depth, queue=False):
    """Forward-port conflicts: only the integration branches before the
    conflicting one exist, the developer creates the missing one by hand."""
    return spec('c19-%s-D3-conflict' % ('q' if queue else 'noq'), 'D3', [],
                queue=queue, depth=depth, resolve=True, pushes=0,
                eval_children=False, eval_int_commits=False,
                init=conflict_init(),
                config={'layout': 'D3', 'queue': queue, 'skip_queue': False,
                        'int_prs': True, 'int_branches': True,
                        'options': BYPASS_REVIEW + ['bypass_build_status']})


def specs(tier):
    two = [(PR1, 'development/4.3'), (PR2, 'development/5.1')]
    approve = [[AUTHOR, '@robot approve']]
    if tier == 'quick':
        return [# nothing is created by default; the author's approval
                # triggers the integration branches; then decline
                spec('c19-noq-D2-nobranches-approve', 'D2', two[:1], depth=4,
                     int_prs=False, int_branches=False, comments=approve,
                     pushes=0, eval_int_commits=False),
                spec('c19-noq-D2-child-declined', 'D2', two[:1], depth=4,
                     decline_children=True, decline=False, pushes=0,
                     eval_int_commits=False),
                conflict_spec(4),
                spec('c19-noq-D3', 'D3', two[:1], depth=5),
                spec('c19-noq-D3-noprs', 'D3', two[:1], depth=4,
                     int_prs=False, pushes=0),
                spec('c19-noq-D3-two', 'D3', two, depth=5,
                     eval_children=False, eval_int_commits=False, pushes=0,
                     init=[['open', PR1, 'development/4.3'],
                           ['open', PR2, 'development/5.1'],
                           ['eval_pr', 1], ['eval_pr', 2]]),
                spec('c19-q-D3', 'D3', [(PR1, 'development/4.3')],
                     queue=True, depth=5, decline=False,
                     config={'layout': 'D3', 'queue': True,
                             'skip_queue': False, 'int_prs': True,
                             'int_branches': True,
                             'options': BYPASS_REVIEW + [
                                 'bypass_build_status']})]
    opts = [[AUTHOR, '@robot create_pull_requests'],
            [AUTHOR, '@robot create_integration_branches']]
    return [spec('c19-noq-D3-nobranches-approve', 'D3', two[:1], depth=6,
                 int_prs=False, int_branches=False, comments=approve + opts),
            spec('c19-q-D3-nobranches-approve', 'D3', two[:1], depth=6,
                 queue=True, int_prs=False, int_branches=False,
                 comments=approve),
            spec('c19-noq-D3-child-declined', 'D3', two, depth=6,
                 decline_children=True),
            spec('c19-q-D3-child-declined', 'D3', two[:1], depth=6,
                 queue=True, decline_children=True),
            conflict_spec(8), conflict_spec(8, queue=True),
            spec('c19-noq-D3', 'D3', two, depth=6),
            spec('c19-q-D3', 'D3', two, queue=True, depth=6),
            spec('c19-q-D3-nobuild', 'D3', two[:1], queue=True, depth=7,
                 config={'layout': 'D3', 'queue': True, 'skip_queue': False,
                         'int_prs': True, 'int_branches': True,
                         'options': BYPASS_REVIEW + ['bypass_build_status']}),
            spec('c19-q-S3', 'S3', [(PR1, 'stabilization/4.3.18'),
                                    (PR2, 'development/4.3')], queue=True,
                 depth=6),
            spec('c19-noq-D3-noprs', 'D3', [(PR1, 'development/4.3')],
                 depth=7, int_prs=False, comments=opts[:1]),
            spec('c19-noq-D3-nobranches', 'D3', [(PR1, 'development/4.3')],
                 depth=7, int_prs=False, int_branches=False, comments=opts),
            spec('c19-q-D3-noprs', 'D3', [(PR1, 'development/4.3')],
                 queue=True, depth=7, int_prs=False, comments=opts[:1])]


def run(tier, seed, workers=None):
    cr = check.run_specs(
        PROP, specs(tier), seed, workers=workers,
        required_statuses=['PullRequestDeclined', 'SuccessMessage'],
        nontrivial_stat='c19_open_children',
        rule='BFS over histories of PR events, child-PR events and commit '
             'events on every source / integration / queue tip in every '
             'order and multiplicity, pushes, decline, merge, integration '
             'pull requests declined by hand, forward-port conflicts resolved '
             'by hand; monitor after '
             'every transition (<=1 open integration PR per (branch, '
             'target), naming, branches only for targets, exact cleanup on '
             'decline and merge) + redirect differential; '
             'distinct_nontrivial = open integration pull requests '
             'inspected',
        assumptions=['mock host: an integration pull request whose branch '
                     'was deleted stays OPEN (real hosts close it)'])
    return cr


def replay(data):
    return check.replay_sys(data, {PROP})
