"""C17 part (b): a green verdict is never downgraded while it stays in the
bounded status cache; any other commit is answered with what the host
currently reports.

Explicit-state BFS over the real Repository.get_build_status (GitHub and
Bitbucket flavours), the real webhook handlers and the real LRUCache; the git
host is a scripted client object.  A state is (host table, cache contents in
LRU order, set of verdicts Bert-E has seen green); every transition rebuilds
the real objects from the state and calls the real code."""
import collections
import itertools
import multiprocessing as mp
import os
import traceback
from types import SimpleNamespace

from ..enum import core

COMMITS = ['a' * 40, 'b' * 40]
KEYS = ['pre-merge', 'other-ci']
STATES = ['SUCCESSFUL', 'FAILED', 'INPROGRESS']
GH_OF = {'SUCCESSFUL': 'success', 'FAILED': 'failure', 'INPROGRESS': 'pending'}


class HTTP404(Exception):
    pass


def stub_berte(client):
    from bert_e.lib.settings_dict import SettingsDict
    return SimpleNamespace(
        client=client, project_repo=SimpleNamespace(full_name='o/r'),
        git_repo=SimpleNamespace(),
        settings=SettingsDict({'commit_base_url': 'http://h/{commit_id}',
                               'pull_request_base_url': 'http://h/{pr_id}'}))


def make_flavour(flavour, host):
    """Returns (repo, bert_e stub, make_status(c, k, s), hook(c, k, s))."""
    import requests
    if flavour == 'github':
        from bert_e.git_host import github
        from bert_e.server import webhook

        class Client:
            login = 'robot'

            def get(self, url, params=None, headers=None, **kw):
                if '/actions/runs' in url:
                    return {'total_count': 0, 'workflow_runs': []}
                if url.endswith('/status'):
                    c = url.split('/commits/')[1].split('/')[0]
                    sts = [{'state': GH_OF[host[(c, k)]], 'context': k,
                            'target_url': None, 'description': None}
                           for k in KEYS if host.get((c, k))]
                    return {'state': 'x', 'sha': c, 'statuses': sts}
                raise AssertionError(url)
        client = Client()
        repo = github.Repository(client=client, _validate=False,
                                 name='r', full_name='o/r',
                                 owner={'id': 1, 'login': 'o'})
        bert_e = stub_berte(client)

        def make_status(c, k, s):
            return github.Status(client=client, _validate=False,
                                 state=GH_OF[s], context=k, target_url=None,
                                 description=None)

        def hook(c, k, s):
            return webhook.handle_github_status_event(bert_e, {
                'sha': c, 'state': GH_OF[s], 'context': k,
                'description': None, 'target_url': None})
        return repo, make_status, hook
    from bert_e.git_host import bitbucket
    from bert_e.server import webhook

    class Resp:
        def __init__(self, code, data):
            self.status_code, self._data = code, data

        def raise_for_status(self):
            if self.status_code >= 400:
                raise requests.HTTPError(response=self)

        def json(self):
            return self._data

    class Client:
        login = 'robot'

        def get(self, url, **kw):
            # .../commit/<sha>/statuses/build/<key>
            c = url.split('/commit/')[1].split('/')[0]
            k = url.rsplit('/', 1)[1]
            s = host.get((c, k))
            if not s:
                return Resp(404, {})
            return Resp(200, {'state': s, 'key': k, 'url': 'http://ci',
                              'description': ''})
    client = Client()
    repo = bitbucket.Repository(client, owner='o', repo_slug='r')
    bert_e = stub_berte(client)

    def make_status(c, k, s):
        return bitbucket.BuildStatus(client, state=s, key=k, url='http://ci',
                                     description='')

    def hook(c, k, s):
        return webhook.handle_bitbucket_repo_event(bert_e, 'commit_status_updated', {
            'commit_status': {
                'state': s, 'key': k, 'url': 'http://ci', 'description': '',
                'links': {'commit': {'href': 'https://api/x/commit/' + c}}}})
    return repo, make_status, hook


def events():
    evs = []
    for c in COMMITS:
        for k in KEYS:
            evs.append(('poll', c, k))
            for s in STATES:
                evs.append(('host', c, k, s))
                evs.append(('hook', c, k, s))
    return evs


def canon(host, cache_state, seen, ref=frozenset()):
    return (tuple(sorted(host.items())),
            tuple((k, tuple(cache_state.get(k, ()))) for k in KEYS),
            tuple(sorted(seen)),
            tuple(sorted((x, tuple(sorted(o))) for x, o in ref)))


def ref_update(ref, ev, ans, size):
    """Implementation-independent reading of "seen SUCCESSFUL and still among
    the most recently used entries": (commit, key) enters when a poll answers
    SUCCESSFUL or a SUCCESSFUL webhook event is delivered for it, and stays
    for as long as fewer than `size` *other* commits have been the subject of
    a webhook event or a poll since (whatever their key: conservative, the
    real cache may keep it longer).  ref: frozenset of ((c, k), others)."""
    if ev[0] == 'host':
        return ref
    out = {}
    for x, others in ref:
        if ev[1] != x[0]:
            others = others | {ev[1]}
        if len(others) < size:
            out[x] = frozenset(others)
    if (ev[0] == 'poll' and ans == 'SUCCESSFUL') or \
            (ev[0] == 'hook' and ev[3] == 'SUCCESSFUL'):
        out[(ev[1], ev[2])] = frozenset()
    return frozenset(out.items())


INITS = [
    # (host, cache state, seen, ref): the empty world, and worlds in which one
    # verdict is already cached green
    (dict(), {}, frozenset(), frozenset()),
    ({(COMMITS[0], KEYS[0]): 'SUCCESSFUL'},
     {KEYS[0]: ((COMMITS[0], 'SUCCESSFUL'),)},
     frozenset({(COMMITS[0], KEYS[0])}),
     frozenset({((COMMITS[0], KEYS[0]), frozenset())})),
    ({(COMMITS[0], KEYS[1]): 'SUCCESSFUL'},
     {KEYS[1]: ((COMMITS[0], 'SUCCESSFUL'),)},
     frozenset({(COMMITS[0], KEYS[1])}),
     frozenset({((COMMITS[0], KEYS[1]), frozenset())})),
]


def explore(flavour, size, depth, first_events=None, init=0):
    """BFS; returns dict(states, transitions, violations, answers)."""
    from bert_e.git_host import cache as C
    from bert_e.lib.lru_cache import LRUCache
    host = {}
    repo, make_status, hook = make_flavour(flavour, host)
    evs = events()
    init = INITS[init]
    seen_states = {canon(*init)}
    frontier = [(init, [])]
    transitions = 0
    violations = []
    answers = collections.Counter()
    for d in range(depth):
        nxt = []
        for (h0, cs0, seen0, ref0), hist in frontier:
            for ev in evs:
                if d == 0 and first_events is not None and \
                        ev not in first_events:
                    continue
                # rebuild the real objects from the state
                host.clear()
                host.update(h0)
                C.BUILD_STATUS_CACHE.clear()
                for k, entries in cs0.items():
                    lru = LRUCache(size)
                    for c, s in entries:
                        lru._dict[c] = make_status(c, k, s)
                    C.BUILD_STATUS_CACHE[k] = lru
                for k in KEYS:
                    if k not in C.BUILD_STATUS_CACHE:
                        C.BUILD_STATUS_CACHE[k] = LRUCache(size)
                C.BUILD_STATUS_CACHE['github_actions'] = LRUCache(size)
                pre_present = {(c, k) for k in KEYS
                               for c in C.BUILD_STATUS_CACHE[k]._dict}
                ans = None
                if ev[0] == 'host':
                    host[(ev[1], ev[2])] = ev[3]
                elif ev[0] == 'hook':
                    host[(ev[1], ev[2])] = ev[3]
                    job = hook(ev[1], ev[2], ev[3])
                    # (C13) a status event that is not "build started" must
                    # yield an evaluation of that commit, whatever is cached
                    if ev[3] != 'INPROGRESS' and not (
                            type(job).__name__ == 'CommitJob' and
                            job.commit == ev[1]):
                        violations.append((
                            'dropped:%s' % flavour,
                            '%s: the webhook handler returned %r for the '
                            'status event (%s, %s, %s): the accepted event '
                            'is not followed by an evaluation (after %s)' % (
                                flavour, job, ev[1][:4], ev[2], ev[3],
                                hist + [list(ev)]),
                            {'flavour': flavour, 'size': size,
                             'init': INITS.index(init),
                             'history': hist + [list(ev)]}))
                else:
                    ans = repo.get_build_status(ev[1], ev[2])
                    answers[ans] += 1
                transitions += 1
                cs1 = {}
                for k in KEYS:
                    cs1[k] = tuple((c, st.state) for c, st in
                                   C.BUILD_STATUS_CACHE[k]._dict.items())
                present = {(c, k) for k in KEYS for c, _ in cs1[k]}
                green = {(c, k) for k in KEYS for c, s in cs1[k]
                         if s == 'SUCCESSFUL'}
                here = hist + [list(ev)]
                # (1) never downgraded while it stays in the cache
                for (c, k) in seen0:
                    if (c, k) in present and (c, k) not in green:
                        violations.append((
                            'downgraded:%s:%s' % (flavour, ev[0]),
                            '%s: (%s, %s) was seen SUCCESSFUL and is still '
                            'cached, but the cached verdict became %s after '
                            '%s' % (flavour, c[:4], k, dict(cs1[k])[c], here),
                            {'flavour': flavour, 'size': size,
                             'init': INITS.index(init), 'history': here}))
                # (2) answers
                if ev[0] == 'poll':
                    c, k = ev[1], ev[2]
                    sticky = (c, k) in seen0 and (c, k) in pre_present
                    want = 'SUCCESSFUL' if sticky else (
                        host.get((c, k)) or 'NOTSTARTED')
                    if (c, k) in dict(ref0):
                        if ans != 'SUCCESSFUL':
                            violations.append((
                                'answer:%s:seen-green-lost' % flavour,
                                '%s: poll(%s, %s) answered %s although '
                                'Bert-E had seen it SUCCESSFUL and fewer '
                                'than %d other commits were used since '
                                '(host now says %s) after %s' % (
                                    flavour, c[:4], k, ans, size,
                                    host.get((c, k)), here),
                                {'flavour': flavour, 'size': size,
                                 'init': INITS.index(init),
                                 'history': here}))
                    elif ans != want:
                        violations.append((
                            'answer:%s:%s' % (flavour,
                                              'sticky' if sticky else 'host'),
                            '%s: poll(%s, %s) answered %s, expected %s '
                            '(host says %s, seen green: %s) after %s' % (
                                flavour, c[:4], k, ans, want,
                                host.get((c, k)), sticky, here),
                            {'flavour': flavour, 'size': size,
                             'init': INITS.index(init), 'history': here}))
                seen1 = frozenset((x for x in seen0 if x in present)) | \
                    frozenset(green)
                st = (dict(host), cs1, seen1,
                      ref_update(ref0, ev, ans, size))
                key = canon(*st)
                if key not in seen_states:
                    seen_states.add(key)
                    nxt.append((st, here))
        frontier = nxt
    C.BUILD_STATUS_CACHE.clear()
    return {'states': len(seen_states), 'transitions': transitions,
            'violations': violations, 'answers': dict(answers),
            'closed': not frontier}


def lru_reference_check(p):
    """The LRU itself against a list-based reference: every sequence of <= 6
    get/set operations over 3 keys, size 2."""
    from bert_e.lib.lru_cache import LRUCache
    ops = [('get', k) for k in 'abc'] + [('set', k) for k in 'abc']
    for n in range(1, 7):
        for seq in itertools.product(ops, repeat=n):
            real = LRUCache(2)
            ref = []          # least recently used first: (key, value)
            for i, (op, k) in enumerate(seq):
                if op == 'set':
                    real.set(k, i)
                    ref = [(a, b) for a, b in ref if a != k]
                    ref.append((k, i))
                    ref = ref[-2:]
                else:
                    got = real.get(k, None)
                    hit = [b for a, b in ref if a == k]
                    want = hit[0] if hit else None
                    if hit:
                        ref = [(a, b) for a, b in ref if a != k] + [
                            (k, hit[0])]
                    if got != want:
                        p.mismatch('lru', 'LRUCache diverges from the '
                                   'reference on %s' % (seq,), {
                                       'lru_ops': [list(x) for x in seq]})
                        break
            p.evaluations += 1
            if list(real._dict.items()) != ref:
                p.mismatch('lru', 'LRUCache content %s, reference %s after '
                           '%s' % (list(real._dict.items()), ref, seq),
                           {'lru_ops': [list(x) for x in seq]})


def _task(args):
    flavour, size, depth, first, init = args
    try:
        core.import_berte()
        return explore(flavour, size, depth, [first], init)
    except BaseException:
        return {'error': traceback.format_exc()}


def extend(cr, tier, seed, workers):
    depth = 4 if tier == 'quick' else 5
    tasks = [(fl, size, depth, ev, init) for fl in ('github', 'bitbucket')
             for size in (1, 2) for ev in events()
             for init in range(len(INITS))]
    ctx = mp.get_context('fork')
    with ctx.Pool(workers or min(16, os.cpu_count() or 4)) as pool:
        results = pool.map(_task, tasks, 1)
    states = transitions = 0
    answers = collections.Counter()
    seen_fp = set()
    for (fl, size, d, ev, init), r in zip(tasks, results):
        if 'error' in r:
            cr.harness_errors.append(r['error'][-1500:])
            continue
        states += r['states']
        transitions += r['transitions']
        answers.update(r['answers'])
        for fp, msg, case in r['violations']:
            if fp in seen_fp or fp.startswith('dropped:'):
                continue      # dropped events are judged by C13
            seen_fp.add(fp)
            cr.add_violation(msg, fp, {'engine': 'enum', 'case': case})
    p = core.Part()
    core.import_berte()
    lru_reference_check(p)
    for fp, msg, case in p.mismatches[:3]:
        cr.add_violation(msg, fp, {'engine': 'enum', 'case': case})
    cov = cr.coverage
    cov['cache_part_b'] = {
        'states': states, 'transitions': transitions, 'depth': depth,
        'poll_answers': dict(answers), 'lru_sequences': p.evaluations,
        'rule': 'BFS (partitioned by first event; states counted per '
                'partition) over {host sets a status silently, webhook '
                'status event, poll get_build_status} x 2 commits x 2 build '
                'keys x {SUCCESSFUL, FAILED, INPROGRESS}, cache size 1 and 2 '
                '(eviction happens), GitHub and Bitbucket flavours, from the '
                'empty cache and from two states with one verdict cached '
                'green, depth %d; oracles: cached green never downgraded, '
                'answers = sticky or host, and an implementation-independent '
                'recency model (seen green stays green until `size` other '
                'commits were used); the LRU itself: every sequence of <= 6 get/set over 3 '
                'keys against a list-based reference' % depth}
    cov['states'] = states
    cov['transitions'] = transitions
    cov['traces_validated_against_impl'] = transitions
    cov['evaluations'] += transitions + p.evaluations
    cov['distinct_nontrivial'] += answers.get('SUCCESSFUL', 0)
    cr.level = 'model_checking'
    if not answers.get('SUCCESSFUL') or not answers.get('FAILED'):
        cr.harness_errors.append('vacuous: polls never answered both '
                                 'SUCCESSFUL and FAILED: %s' % dict(answers))


def webhook_events_pass(cr, workers=None, depth=3):
    """For C13: every status webhook event delivered to the real handlers in
    every state of the cache reachable in `depth` steps (incl. states with a
    verdict already cached green) must produce a CommitJob for its commit
    unless it only says that the build started."""
    tasks = [(fl, size, depth, ev, init) for fl in ('github', 'bitbucket')
             for size in (1, 2) for ev in events()
             for init in range(len(INITS))]
    ctx = mp.get_context('fork')
    with ctx.Pool(workers or min(16, os.cpu_count() or 4)) as pool:
        results = pool.map(_task, tasks, 1)
    n = 0
    seen_fp = set()
    for r in results:
        if 'error' in r:
            cr.harness_errors.append(r['error'][-1500:])
            continue
        n += r['transitions']
        for fp, msg, case in r['violations']:
            if fp.startswith('dropped:') and fp not in seen_fp:
                seen_fp.add(fp)
                cr.add_violation(msg, fp, {'engine': 'enum',
                                           'webhook_case': case})
    return n


def replay(data):
    core.import_berte()
    case = data['case']
    if 'lru_ops' in case:
        p = core.Part()
        lru_reference_check(p)
        return not p.mismatches, str(p.mismatches[:1])
    hist = [tuple(e) for e in case['history']]
    # replay the single history: explore with the alphabet restricted step
    # by step
    from bert_e.git_host import cache as C
    from bert_e.lib.lru_cache import LRUCache
    host = {}
    repo, make_status, hook = make_flavour(case['flavour'], host)
    C.BUILD_STATUS_CACHE.clear()
    for k in KEYS + ['github_actions']:
        C.BUILD_STATUS_CACHE[k] = LRUCache(case['size'])
    h0, cs0, seen, ref = INITS[case.get('init', 0)]
    host.update(h0)
    for k, entries in cs0.items():
        for c, st in entries:
            C.BUILD_STATUS_CACHE[k]._dict[c] = make_status(c, k, st)
    seen = set(seen)
    out = []
    ok = True
    for ev in hist:
        pre_present = {(c, k) for k in KEYS
                       for c in C.BUILD_STATUS_CACHE[k]._dict}
        ans = None
        if ev[0] == 'host':
            host[(ev[1], ev[2])] = ev[3]
        elif ev[0] == 'hook':
            host[(ev[1], ev[2])] = ev[3]
            job = hook(ev[1], ev[2], ev[3])
            if data.get('judge_dropped') and ev[3] != 'INPROGRESS' and \
                    type(job).__name__ != 'CommitJob':
                ok = False
                ans = 'handler returned %r' % (job,)
        else:
            ans = repo.get_build_status(ev[1], ev[2])
            sticky = (ev[1], ev[2]) in seen and (ev[1], ev[2]) in pre_present
            want = 'SUCCESSFUL' if sticky else (host.get((ev[1], ev[2])) or
                                                'NOTSTARTED')
            if (ev[1], ev[2]) in dict(ref):
                want = 'SUCCESSFUL'
            if ans != want:
                ok = False
        green = {(c, k) for k in KEYS
                 for c, st in C.BUILD_STATUS_CACHE[k]._dict.items()
                 if st.state == 'SUCCESSFUL'}
        present = {(c, k) for k in KEYS
                   for c in C.BUILD_STATUS_CACHE[k]._dict}
        for x in seen:
            if x in present and x not in green:
                ok = False
        seen = {x for x in seen if x in present} | green
        ref = ref_update(ref, ev, ans, case['size'])
        out.append('%s -> %s' % (list(ev), ans))
    C.BUILD_STATUS_CACHE.clear()
    return ok, '\n'.join(out)
