"""C12 - held-back, finished and foreign pull requests are left alone.

SYS, driver HOLD: a fully approved, green pull request combined with each
hold, added and removed at every position; driver PAIRS: one pull request per
(source, destination) pair of the branch-name grammar, evaluated once."""
from ..sysmc import check
from ..sysmc.drivers import BYPASS_REVIEW

PROP = 'C12'
SRC = ['bugfix/TEST-1', 'bugfix/TEST-2', 'bugfix/TEST-3', 'bugfix/TEST-4']


def hold_spec(name, hold, queue, depth, **kw):
    init = [['open', SRC[0], 'development/4.3'],
            ['open', SRC[1], 'development/5.1'],
            ['open', SRC[2], 'development/5.1'], ['decline', 3],
            ['open', SRC[3], 'development/5.1'],
            ['ci_int', 4, 'SUCCESSFUL'], ['eval_pr', 4]]
    if queue:
        init += [['ci_q_all', 'SUCCESSFUL'], ['eval_pr', 4]]
    s = {'driver': 'hold', 'name': name, 'hold': hold,
         'config': {'layout': 'D2', 'queue': queue, 'skip_queue': False,
                    'options': BYPASS_REVIEW},
         'init': init, 'monitors': ['c12'], 'max_depth': depth}
    s.update(kw)
    return s


def ten_spec(depth, queue=False):
    """Ids that share digits: pull request 1 is merged, pull request 10 is
    open, the subject (11) depends on 10."""
    init = [['open', 'bugfix/TEST-0', 'development/5.1'],
            ['ci_int', 1, 'SUCCESSFUL'], ['eval_pr', 1]]      # merged (noq)
    if queue:
        init += [['ci_q_all', 'SUCCESSFUL'], ['eval_pr', 1]]
    for k in range(2, 10):
        init += [['open', 'bugfix/FILL-%d' % k, 'development/5.1'],
                 ['decline', k]]
    init += [['open', SRC[1], 'development/5.1'],              # id 10
             ['open', SRC[0], 'development/4.3'],              # id 11
             ['ci_int', 11, 'SUCCESSFUL']]
    s = hold_spec('c12-%s-after-ten' % ('q' if queue else 'noq'),
                  '@robot after_pull_request=10', queue, depth,
                  merge_pr2=True, decline=False)
    s['init'] = init
    s['subject'] = 11
    s['dependency'] = 10
    return s


HOLDS = [('wait', '@robot wait'),
         ('after-open', '@robot after_pull_request=2'),
         ('after-declined', '@robot after_pull_request=3'),
         ('after-merged', '@robot after_pull_request=4'),
         ('after-unknown', '@robot after_pull_request=99'),
         ('after-nan', '@robot after_pull_request=abc'),
         ('after-two', '@robot after_pull_request=2 after_pull_request=4'),
         ('after-two-rev',
          '@robot after_pull_request=4 after_pull_request=2')]
PAIR_SOURCES = ['bugfix/x', 'feature/TEST-9', 'user/alice/x', 'hotfix/4.2.17',
                'release/4.3', 'development/4.3', 'w/5.1/bugfix/x', 'q/4.3',
                'random-name', 'hotfix/old-style']
PAIR_DESTS = ['development/4.3', 'development/5.1', 'hotfix/4.2.17',
              'release/4.3', 'user/bob/y', 'bugfix/y', 'master',
              'w/5.1/bugfix/x', 'q/5.1', 'development/9.9']


def pairs_spec(queue):
    return {'driver': 'pairs', 'name': 'c12-pairs-%s' % (
        'q' if queue else 'noq'),
        'config': {'layout': 'D2', 'queue': queue, 'skip_queue': False,
                   'options': BYPASS_REVIEW},
        'init': [], 'monitors': ['c12_pairs'], 'sources': PAIR_SOURCES,
        'destinations': PAIR_DESTS, 'max_depth': 1}


def specs(tier):
    if tier == 'quick':
        return [hold_spec('c12-noq-wait', HOLDS[0][1], False, 5),
                hold_spec('c12-noq-after-open', HOLDS[1][1], False, 4,
                          merge_pr2=True, decline=False),
                hold_spec('c12-noq-after-declined', HOLDS[2][1], False, 4,
                          decline=False),
                hold_spec('c12-q-wait', HOLDS[0][1], True, 5, decline=False),
                hold_spec('c12-noq-after-two', HOLDS[6][1], False, 3,
                          decline=False),
                hold_spec('c12-noq-after-two-rev', HOLDS[7][1], False, 3,
                          decline=False),
                ten_spec(3),
                pairs_spec(False)]
    out = []
    for queue in (False, True):
        for tag, text in HOLDS:
            out.append(hold_spec('c12-%s-%s' % ('q' if queue else 'noq', tag),
                                 text, queue, 6 if not queue else 7,
                                 merge_pr2=tag in ('after-open', 'after-two',
                                                  'after-two-rev')))
        out.append(pairs_spec(queue))
        out.append(ten_spec(5, queue))
    return out


def run(tier, seed, workers=None):
    return check.run_specs(
        PROP, specs(tier), seed, workers=workers,
        required_statuses=['SuccessMessage', 'AfterPullRequest',
                           'NothingToDo', 'NotMyJob'],
        nontrivial_stat='c12_evaluations_on_hold',
        rule='BFS over {evaluate, CI green, queue evaluation, add the hold, '
             'delete the hold comment, merge the dependency, decline} for '
             'each hold (wait; after_pull_request on an open, declined, '
             'merged, unknown, non-numeric id; two dependencies in both '
             'orders; dependency 10 while pull request 1 is merged) on a '
             'pull request whose reviews are bypassed and builds green; plus '
             'one pull request per (source, destination) pair of 10 x 10 '
             'names evaluated once; distinct_nontrivial = jobs run while '
             'the pull request was on hold (or finished)',
        assumptions=['a non-numeric after_pull_request argument is not a '
                     'dependency (the option handler ignores it)'])


def replay(data):
    return check.replay_sys(data, {PROP})
