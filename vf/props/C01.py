"""C01 - forward-port inclusion of destination branches is an invariant.

SYS exploration, driver FLOW; monitor c01 (monitors.py) checks the chain on
the remote after every transition, inductively."""
from ..sysmc import check
from ..sysmc.drivers import BYPASS_REVIEW

PROP = 'C01'
PR1, PR2, PR3 = 'bugfix/TEST-1', 'bugfix/TEST-2', 'feature/TEST-3'


def spec(name, layout, dst1, dst2, queue=True, skip=False, options=(),
         depth=None, **kw):
    s = {'driver': 'flow', 'name': name,
         'config': {'layout': layout, 'queue': queue, 'skip_queue': skip,
                    'options': BYPASS_REVIEW + list(options)},
         'init': [['open', PR1, dst1], ['open', PR2, dst2]],
         'monitors': ['c01'], 'pushes': 0, 'per_q_ci': False,
         'max_depth': depth}
    s.update(kw)
    return s


def conflict_spec(mode, depth, **kw):
    from ..sysmc.world import AUTHOR
    return spec('%s-D3-conflict' % mode, 'D3', None, None, depth=depth,
                options=['bypass_build_status'], statuses_int=[],
                statuses_q=['SUCCESSFUL'], resolve=True,
                init=[['open', PR1, 'development/4.3', AUTHOR,
                       'file_development_5.1', 'mine\n'],
                      ['open', PR2, 'development/4.3', AUTHOR,
                       'file_development_5.1', 'theirs\n']], **kw)


def create_spec(queue, depth, layout='D3'):
    """Branch creation (with explicit branching points) in states where
    destination branches have moved."""
    jobs = []
    names = ('development/4.4', 'development/5.0', 'development/10.1',
             'stabilization/5.1.0', 'stabilization/4.3.0')
    froms = ('', '@development/4.3~1', '@development/10.0~1',
             '@development/5.1', 'development/4.3')
    if layout == 'SS3':
        # stabilization branches next to the insertion points
        names = ('development/4.4', 'development/5.0', 'development/5.2',
                 'development/10.1')
        froms = ('', '@development/10.0', '@development/10.0~1',
                 '@development/5.1', '@development/4.3',
                 '@stabilization/5.1.5')
    for name in names:
        for frm in froms:
            jobs.append(['create_branch', name] + ([frm] if frm else []))
    return {'driver': 'admin', 'name': 'create-%s-%s' % (
        'q' if queue else 'noq', layout),
        'config': {'layout': layout, 'queue': queue, 'skip_queue': False,
                   'options': BYPASS_REVIEW + ['bypass_build_status']},
        'init': [['open', PR1, 'development/4.3'],
                 ['open', PR2, 'development/5.1']],
        'monitors': ['c01'], 'pushes': 0, 'per_q_ci': False,
        'statuses_int': [], 'statuses_q': ['SUCCESSFUL'],
        'admin_jobs': jobs, 'max_depth': depth}


def specs(tier):
    if tier == 'quick':
        return [
            create_spec(False, 3),
            create_spec(False, 2, 'SS3'),
            spec('q-S3', 'S3', 'stabilization/4.3.18', 'development/4.3',
                 depth=6),
            spec('skipq-M3', 'M3', 'development/4.3', 'development/4.3',
                 skip=True, depth=7),
            spec('noq-nooct-D2', 'D2', 'development/4.3', 'development/4.3',
                 queue=False, options=['no_octopus'], pushes=1, depth=5),
            # builds bypassed: depth is spent on merges (3 targets, octopus)
            spec('noq-S3-same-nobuild', 'S3', 'stabilization/4.3.18',
                 'stabilization/4.3.18', queue=False, depth=4, pushes=1,
                 options=['bypass_build_status'], statuses_int=[]),
            # developers commit on the integration branches (incl. a
            # content-null forward port: the change reverted on a version)
            spec('noq-D3-manual', 'D3', 'development/4.3', None, queue=False,
                 depth=4, manual=['commit', 'revert'],
                 init=[['open', PR1, 'development/4.3'], ['eval_pr', 1]]),
            spec('q-D2-manual', 'D2', 'development/4.3', None,
                 depth=5, statuses_q=['SUCCESSFUL'], manual=['revert'],
                 init=[['open', PR1, 'development/4.3'], ['eval_pr', 1]]),
            # conflicts: pull request 1 collides with a file of
            # development/5.1, pull request 2 with pull request 1; the
            # developer resolves by creating the integration branch by hand
            conflict_spec('noq', 7, queue=False),
            conflict_spec('q', 6),
        ]
    out = [create_spec(False, 4), create_spec(True, 5),
           create_spec(False, 4, 'SS3'), create_spec(True, 4, 'SS3'),
           conflict_spec('noq', 10, queue=False), conflict_spec('q', 9),
           conflict_spec('skipq', 9, skip=True)]
    for mode, kw in [('q', dict()), ('skipq', dict(skip=True)),
                     ('noq', dict(queue=False))]:
        for octo in ((), ('no_octopus',)):
            out.append(spec(
                '%s-D3-manual%s' % (mode, '-nooct' if octo else ''), 'D3',
                'development/4.3', None, depth=7,
                options=list(octo), statuses_q=['SUCCESSFUL'], pushes=1,
                manual=['commit', 'revert'],
                init=[['open', PR1, 'development/4.3'], ['eval_pr', 1]],
                **kw))
    admin = [['rebuild_queues'], ['delete_queues'], ['force_merge']]
    for layout, d1, d2 in [
            ('D1', 'development/4.3', 'development/4.3'),
            ('D2', 'development/4.3', 'development/5.1'),
            ('D2', 'development/4.3', 'development/4.3'),
            ('S3', 'stabilization/4.3.18', 'development/4.3'),
            ('S3', 'stabilization/4.3.18', 'stabilization/4.3.18'),
            ('M3', 'development/4.3', 'development/4'),
            ('M3', 'development/4.3', 'development/4.3'),
            ('H3', 'hotfix/4.2.17', 'development/4.3'),
            ('S4', 'stabilization/4.3.18', 'development/4'),
            ('S4', 'development/4.3', 'development/4.3')]:
        for mode, kw in [('q', dict()), ('skipq', dict(skip=True)),
                         ('noq', dict(queue=False))]:
            for octo in ((), ('no_octopus',)):
                if octo and d1 != d2:
                    continue    # consecutive merges only differ from the
                    # octopus when the first target has moved (same target)
                name = '%s-%s-%s%s' % (mode, layout, 'same' if d1 == d2 else 'diff', '-nooct' if octo else '')
                extra = {}
                if mode != 'noq' and not octo:
                    extra['admin'] = admin
                out.append(spec(name, layout, d1, d2, options=octo,
                                depth=10, pushes=1 if mode == 'noq' else 0,
                                **kw, **extra))
    return out


def run(tier, seed, workers=None):
    return check.run_specs(
        PROP, specs(tier), seed, workers=workers,
        required_statuses=['Merged', 'Queued', 'SuccessMessage'],
        nontrivial_stat='c01_dest_changed',
        rule='BFS over event histories (eval_pr, ci_int, ci_q_all S/F, '
             'eval_commit, push, admin jobs) of two pull requests (same and '
             'different first targets), also with developer commits on '
             'integration branches (plain, revert to the destination tree), '
             'merge conflicts resolved by hand (integration branch created '
             'by the developer, destination merged into the source) and '
             'create_branch jobs with explicit branching points; real '
             'Bert-E + mock host + real git; '
             'distinct_nontrivial = transitions on which a destination ref '
             'moved (monitor evaluated the inclusion chain before/after)',
        assumptions=[
            'git host is bert_e/git_host/mock.py (shipped in the package)',
            'two pull requests, one commit each (plus one push in no-queue)',
            'depth bound / closure as reported per exploration'])


def replay(data):
    return check.replay_sys(data, {PROP})
