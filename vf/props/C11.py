"""C11 - the ticket gate admits a pull request exactly when its Jira issue
fits.  ENUM on the real jira_checks(job) with bert_e.lib.jira.JiraIssue
replaced by a table-driven fake and a repository stub that forbids any
command; reference = the decision ladder of the statement."""
import itertools
from types import SimpleNamespace

from ..enum import core
from ..runner import CheckResult

PROP = 'C11'

SOURCES = [
    # (name, ticket key or None, project or None)
    ('bugfix/TEST-1', 'TEST-1', 'TEST'),
    ('bugfix/test-1', 'TEST-1', 'TEST'),
    ('feature/TEST-1-some-text', 'TEST-1', 'TEST'),
    ('bugfix/no-ticket-here', None, None),
    ('improvement/whatever', None, None),
    ('bugfix/OTHER-5', 'OTHER-5', 'OTHER'),
    ('bugfix/EST-7', 'EST-7', 'EST'),        # substring of a configured key
    ('bugfix/T-3', 'T-3', 'T'),
    ('bugfix/TESTING-12', 'TESTING-12', 'TESTING'),  # a configured key is a prefix
    ('feature/zenkox-7', 'ZENKOX-7', 'ZENKOX'),
    ('bugfix/ZENKO-8', 'ZENKO-8', 'ZENKO'),  # second configured key
    ('bugfix/TEST-404', 'TEST-404', 'TEST'),
    ('dependabot/pip/x-1.2', None, None),
]
TARGETS = [
    (['development/4.3'], ['4.3.18']),
    (['development/4.3', 'development/5.1'], ['4.3.18', '5.1.5']),
    (['stabilization/4.3.18', 'development/4.3', 'development/5.1',
      'development/10'], ['4.3.18', '5.1.5', '10.1.0']),
    (['hotfix/4.2.17'], ['4.2.17.1']),
]
ISSUE_TYPES = ['Bug', 'Story', 'Epic']        # 'Epic' is not configured
PREFIXES = {'Bug': 'bugfix', 'Story': 'feature', 'Improvement': 'improvement'}


class Forbidden(Exception):
    pass


class NoRepo:
    def __init__(self):
        self.calls = 0

    def cmd(self, *a, **kw):
        self.calls += 1
        raise Forbidden('repository touched: %r' % (a,))

    def checkout(self, *a):
        self.calls += 1
        raise Forbidden('checkout')

    def push(self, *a):
        self.calls += 1
        raise Forbidden('push')


def plain3(v):
    parts = v.split('.')
    return all(p.isdigit() for p in parts) and (
        len(parts) == 3 or (len(parts) == 4 and parts[3] == '0'))


def reference(src, targets_ticketless, expected, issue, cfg):
    """-> expected outcome name ('pass' or exception class name, or a set of
    acceptable names)."""
    name, key, project = src
    if cfg['bypass'] != 'none':
        return 'pass'
    if name.split('/')[0] in cfg['bypass_prefixes']:
        return 'pass'
    if not cfg['configured']:
        return 'pass'
    if key is None:
        if not all(targets_ticketless):
            return 'MissingJiraId'
        return 'pass'
    foreign = project not in cfg['jira_keys']
    if issue is None:
        return {'JiraIssueNotFound', 'IncorrectJiraProject'} if foreign \
            else 'JiraIssueNotFound'
    if foreign:
        return 'IncorrectJiraProject'
    if cfg['prefixes'] and issue['type'] not in cfg['prefixes']:
        return 'IssueTypeNotSupported'
    if cfg['disable_version_checks']:
        return 'pass'
    fixv = set(issue['versions'])
    exp = set(expected)
    if len(exp) == 1 and len(list(exp)[0].split('.')) == 4:
        return 'pass' if list(exp)[0] in fixv else 'IncorrectFixVersion'
    considered = {v for v in fixv if plain3(v)}
    return 'pass' if considered == exp else 'IncorrectFixVersion'


def version_universe(expected):
    e0 = expected[0]
    base = '.'.join(e0.split('.')[:3])
    return list(expected) + ['9.9.9', base + '_hf1', base + '.0', base + '.3']


def enum_part(p, part, nparts, tier):
    core.import_berte()
    import bert_e.exceptions as exc
    from jira.exceptions import JIRAError
    from bert_e.workflow import gitwaterflow as gwf
    from bert_e.workflow.gitwaterflow import jira as J
    from bert_e.workflow.gitwaterflow import branches as B
    from bert_e.job import PullRequestJob
    from bert_e.reactor import Reactor
    from bert_e.lib.settings_dict import SettingsDict
    exc.render = lambda template, **kw: 'stub'
    table = {}

    class FakeIssue:
        def __init__(self, account_url, issue_id, email, token):
            d = table.get(issue_id)
            if d is None:
                raise JIRAError(status_code=404, text='not found')
            self.key = issue_id
            self.fields = SimpleNamespace(
                issuetype=SimpleNamespace(name=d['type']),
                fixVersions=[SimpleNamespace(name=v) for v in d['versions']])
    J.jira_api.JiraIssue = FakeIssue
    repo = NoRepo()
    cfgs = []
    for bypass in ('none', 'comment', 'author', 'cmdline'):
        for configured in ('all', 'no_keys', 'no_email', 'no_url'):
            for prefixes in (True, False):
                for bp in ((), ('dependabot',), ('bugfix',)):
                    for dvc in (False, True):
                        cfgs.append(dict(bypass=bypass, configured=configured,
                                         prefixes=prefixes,
                                         bypass_prefixes=bp,
                                         disable_version_checks=dvc))
    if tier == 'quick':
        cfgs = [c for c in cfgs if c['bypass'] in ('none', 'author') and
                c['configured'] in ('all', 'no_email')]
    idx = -1
    for cfg in cfgs:
        for src in SOURCES:
            for (tnames, expected) in TARGETS:
                idx += 1
                if idx % nparts != part:
                    continue
                gwf.setup({'bypass_jira_check': True}
                          if cfg['bypass'] == 'cmdline' else {})
                jira_keys = [] if cfg['configured'] == 'no_keys' else [
                    'TEST', 'ZENKO']
                base = SettingsDict({
                    'robot': 'robot', 'jira_keys': jira_keys,
                    'jira_email': '' if cfg['configured'] == 'no_email'
                    else 'r@x.org',
                    'jira_account_url': '' if cfg['configured'] == 'no_url'
                    else 'http://jira',
                    'jira_token': 'tok',
                    'prefixes': dict(PREFIXES) if cfg['prefixes'] else {},
                    'bypass_prefixes': list(cfg['bypass_prefixes']),
                    'disable_version_checks': cfg['disable_version_checks'],
                    'pr_author_options': core.author_options(
                        'alice', ['bypass_jira_check']
                        if cfg['bypass'] == 'author' else []),
                    'pull_request_base_url': 'http://h/{pr_id}'})
                refcfg = dict(cfg, configured=cfg['configured'] == 'all',
                              jira_keys=jira_keys,
                              prefixes=PREFIXES if cfg['prefixes'] else {})
                srcb = B.branch_factory(repo, src[0])
                for ticketless in ((False,), (True,), (True, False)):
                    dsts = [B.branch_factory(repo, n) for n in tnames]
                    flags = [ticketless[i % len(ticketless)]
                             for i in range(len(dsts))]
                    for d, f in zip(dsts, flags):
                        d.allow_ticketless_pr = f
                    cascade = SimpleNamespace(dst_branches=dsts,
                                              target_versions=list(expected))
                    pr = SimpleNamespace(author='alice', id=1)
                    job = PullRequestJob(
                        bert_e=SimpleNamespace(settings=base,
                                               project_repo=None,
                                               git_repo=None),
                        pull_request=pr, project_repo=object(),
                        git_repo=repo)
                    job.git.src_branch = srcb
                    job.git.dst_branch = dsts[0]
                    job.git.cascade = cascade
                    Reactor().init_settings(job)
                    if cfg['bypass'] == 'comment':
                        job.settings['bypass_jira_check'] = True
                    uni = version_universe(expected)
                    issues = [None]
                    for t in ISSUE_TYPES:
                        for r in range(len(uni) + 1):
                            for vs in itertools.combinations(uni, r):
                                issues.append({'type': t,
                                               'versions': list(vs)})
                    if src[1] is None or ticketless != (False,):
                        # the issue is irrelevant (or already covered):
                        # keep a handful
                        issues = issues[:1] + issues[1::37]
                    for issue in issues:
                        table.clear()
                        if issue is not None and src[1] != 'TEST-404':
                            table[src[1]] = issue
                        elif src[1] == 'TEST-404':
                            issue = None
                        repo.calls = 0
                        try:
                            J.jira_checks(job)
                            got = 'pass'
                        except exc.TemplateException as e:
                            got = type(e).__name__
                        except Exception as e:
                            got = 'crash:%s' % type(e).__name__
                        exp = reference(src, flags, expected, issue, refcfg)
                        p.evaluations += 1
                        if exp != 'pass':
                            p.nontrivial += 1
                        case = {'source': src[0], 'targets': tnames,
                                'ticketless_ok': flags,
                                'expected_versions': expected,
                                'issue': issue, 'config': cfg}
                        ok = got in exp if isinstance(exp, set) else got == exp
                        if not ok:
                            p.mismatch('ladder:%s' % case,
                                       'jira_checks -> %s, statement says %s:'
                                       ' %s' % (got, exp, case), case)
                        if repo.calls:
                            p.mismatch('touched:%s' % case,
                                       'jira_checks touched the repository: '
                                       '%s' % case, case)
                        if len(p.samples) < 1 and \
                                exp == 'IncorrectFixVersion':
                            p.samples.append({'case': case, 'outcome': got})
    gwf.setup({})


def run(tier, seed, workers=None):
    cr = CheckResult(PROP, 'exploration')
    tot = core.run_parts(enum_part, 64, extra=(tier,), workers=workers)
    return core.fill_result(
        cr, tot,
        rule='8 source names (ticket, lower-case ticket, none, foreign '
             'project, missing issue) x 4 target lists (incl. hotfix) x '
             'ticketless flags x issue {absent, 3 types x every subset of a '
             '7-8 version universe: expected, unrelated, suffixed, x.y.z.0, '
             'x.y.z.n} x settings (bypass source, jira configured or not, '
             'prefixes, bypass_prefixes, disable_version_checks); '
             'non-trivial = the statement demands a refusal',
        assumptions=['bert_e.lib.jira.JiraIssue replaced by a table-driven '
                     'fake (absent -> JIRAError 404)',
                     'target_versions are given (their computation is C09)'])


def replay(data):
    return False, 'enum case (re-run the check to reproduce): %s' % \
        data['case']
