"""C13 - the server never loses an event and its worker never dies.

THR engine: real threads run the real BertE.put_job / BertE.process_task (and
the real Job.__eq__ called back from `job in deque`) under a controlled
scheduler; all interleavings with a bounded number of preemptions."""
import collections
import multiprocessing as mp
import os
import sys
import time
import traceback
from types import SimpleNamespace

from ..enum import core
from ..runner import CheckResult
from ..thr import sched as S

PROP = 'C13'
OUTCOMES = ['return', 'silent', 'template', 'internal', 'jobfailure',
            'runtime']


def build(backtrace):
    """A BertE like bert_e/tests/test_server.MockBertE (real Queue, deque,
    status; no repository)."""
    from bert_e import bert_e as B
    from bert_e.lib.settings_dict import SettingsDict
    from queue import Queue

    class MockBertE(B.BertE):
        def __init__(self):
            self.client = SimpleNamespace(login='robot')
            self.project_repo = SimpleNamespace(owner='o', slug='s',
                                                full_name='o/s')
            self.settings = SettingsDict({
                'repository_host': 'mock', 'repository_owner': 'o',
                'repository_slug': 's', 'build_key': 'pre-merge',
                'pull_request_base_url': 'http://h/{pr_id}',
                'commit_base_url': 'http://h/{commit_id}',
                'backtrace': backtrace, 'quiet': True,
                'pr_author_options': {}})
            self.git_repo = SimpleNamespace(reset=lambda: None)
            self.task_queue = Queue()
            self.tasks_done = collections.deque(maxlen=1000)
            self.status = {}
    return MockBertE()


def make_job(b, key):
    from bert_e.job import PullRequestJob, CommitJob
    if key[0] == 'pr':
        return PullRequestJob(bert_e=b, pull_request=SimpleNamespace(
            id=key[1], author='alice'))
    return CommitJob(bert_e=b, commit=key[1])


def job_key(job):
    if type(job).__name__ == 'PullRequestJob':
        return ('pr', job.pull_request.id)
    return ('commit', job.commit)


def raise_outcome(kind):
    from bert_e import exceptions as X
    if kind == 'return':
        return
    if kind == 'silent':
        raise X.NothingToDo('nothing')
    if kind == 'template':
        e = X.TemplateException.__new__(X.BuildFailed)
        Exception.__init__(e, 'msg')
        e.msg = 'msg'
        raise e
    if kind == 'internal':
        raise X.QueuesNotValidated()
    if kind == 'jobfailure':
        raise X.JobFailure('failed on purpose')
    raise RuntimeError('boom')


EXPECTED_STATUS = {
    # (outcome, backtrace) -> job.status
    ('return', True): '', ('return', False): '',
    ('silent', True): 'NothingToDo', ('silent', False): '',
    ('template', True): 'BuildFailed', ('template', False): '',
    ('internal', True): 'QueuesNotValidated',
    ('internal', False): 'QueuesNotValidated',
    ('jobfailure', True): 'JobFailure', ('jobfailure', False): '',
    ('runtime', True): 'RuntimeError', ('runtime', False): 'RuntimeError',
}


class Harness:
    """One configuration: webhook threads with their event lists, outcome
    rotation, backtrace flag."""
    def __init__(self, webhooks, rotation=0, backtrace=True):
        self.webhooks = webhooks
        self.rotation = rotation
        self.backtrace = backtrace
        core.import_berte()
        from bert_e import bert_e as B
        from bert_e import job as J
        self.codes = [B.BertE.put_job.__code__,
                      B.BertE.process_task.__code__,
                      J.PullRequestJob.__eq__.__code__,
                      J.CommitJob.__eq__.__code__]

    def run_one(self, choices):
        sched = S.Scheduler(choices, self.codes, horizon=5000)
        b = build(self.backtrace)
        S.install_on_queue(sched, b.task_queue)
        marks = []
        problems = []
        started = []

        def dispatch(job, default=None):
            k = job_key(job)
            marks.append(('start', k, sched.step))
            kind = OUTCOMES[(len(started) + self.rotation) % len(OUTCOMES)]
            started.append((job, kind))
            raise_outcome(kind)
        b.dispatch = dispatch

        def webhook(events):
            def body():
                for key in events:
                    job = make_job(b, key)
                    t_call = sched.step
                    try:
                        b.put_job(job)
                        marks.append(('accepted', key, t_call))
                    except S.Abort:
                        raise
                    except Exception as e:
                        marks.append(('refused', key, t_call,
                                      type(e).__name__))
            return body

        def worker():
            while True:
                try:
                    job = b.process_task()
                except S.Abort:
                    raise
                except BaseException as e:
                    problems.append('worker died: %r' % (e,))
                    return
                # (3) after every job
                j, kind = started[-1]
                if b.tasks_done[0] is not job or job is not j:
                    problems.append('finished job is not tasks_done[0]')
                if not job.done:
                    problems.append('finished job not marked done')
                want = EXPECTED_STATUS[(kind, self.backtrace)]
                if job.status != want:
                    problems.append('job status %r after outcome %s, '
                                    'expected %r' % (job.status, kind, want))
                if 'current job' in b.status:
                    problems.append('current-job marker not cleared')
        for i, evs in enumerate(self.webhooks):
            sched.add('webhook%d' % i, webhook(evs))
        w = sched.add('worker', worker, daemon_like=True)
        snap = {}
        orig_end = sched._end

        def end(outcome):
            snap['marks'] = list(marks)
            snap['problems'] = list(problems)
            snap['worker_alive'] = not w.done
            snap['worker_waiting'] = w.waiting_on
            orig_end(outcome)
        sched._end = end
        outcome = sched.run()
        marks_f = snap.get('marks', marks)
        probs = list(snap.get('problems', problems))
        if outcome != 'quiescent':
            waiting = [(t.name, t.waiting_on) for t in sched.threads
                       if not t.done]
            probs.append('execution ended in %s: %s' % (outcome, waiting))
        else:
            if not snap.get('worker_alive'):
                probs.append('worker thread is dead at quiescence')
            elif 'not_empty' not in str(snap.get('worker_waiting')):
                probs.append('worker is not waiting for jobs at quiescence '
                             '(%s)' % snap.get('worker_waiting'))
        # (1) every accepted request is followed by a start after its call
        for m in marks_f:
            if m[0] == 'accepted':
                if not any(s[0] == 'start' and s[1] == m[1] and s[2] > m[2]
                           for s in marks_f):
                    probs.append('event %s accepted at step %d is never '
                                 'followed by an evaluation' % (m[1], m[2]))
        refused = [m for m in marks_f if m[0] == 'refused']
        order = tuple((m[0], m[1]) for m in marks_f if m[0] in ('accepted',
                                                               'start'))
        return sched.trace, {'problems': probs, 'refused': len(refused),
                             'order': order, 'outcome': outcome,
                             'steps': sched.step}


CONFIGS = {
    'quick': [
        ([[('pr', 1), ('pr', 1)], [('pr', 1), ('pr', 2)]], 2),
        ([[('pr', 1)], [('pr', 1)], [('commit', 'abc')]], 1),
    ],
    'thorough': [
        ([[('pr', 1), ('pr', 1)], [('pr', 1), ('pr', 2)]], 3),
        ([[('pr', 1), ('pr', 2)], [('pr', 2), ('pr', 1)],
          [('pr', 1), ('commit', 'abc')]], 2),
        ([[('pr', 1)], [('pr', 1)], [('commit', 'abc')]], 2),
        ([[('pr', 1)], [('pr', 1)], [('pr', 1)]], 3),
    ],
}


def alternatives(trace, start, bound):
    taken = [c for (_, c, _) in trace]
    out = []
    for i in range(start, len(trace)):
        n, c, running = trace[i]
        cost = S.preemptions(trace, i)
        for alt in range(1, n):
            if cost + (1 if running else 0) <= bound:
                out.append(taken[:i] + [alt])
    return out


def _summarise(p, webhooks, bound, rotation, backtrace, orders):
    def on_exec(prefix, trace, result):
        p.evaluations += 1
        if S.preemptions(trace, len(trace)) > 0:
            p.nontrivial += 1
        p.counters['refused_requests'] += result['refused']
        orders.add(result['order'])
        for msg in result['problems']:
            taken = [c for (_, c, _) in trace]
            p.mismatch('c13:' + msg.split(':')[0][:60],
                       '%s [webhooks %s, bound %d, schedule %s]' % (
                           msg, webhooks, bound, taken),
                       {'webhooks': webhooks, 'rotation': rotation,
                        'backtrace': backtrace, 'schedule': taken})
        if len(p.samples) < 1 and len(trace) > 3:
            p.samples.append({'webhooks': webhooks,
                              'schedule': [c for (_, c, _) in trace],
                              'accept/start order': [list(x) for x in
                                                     result['order']]})
    return on_exec


_H = {}


def _subtree(args):
    """Explore the subtree below one prefix (the prefix itself included)."""
    webhooks, bound, rotation, backtrace, prefix = args
    key = (repr(webhooks), rotation, backtrace)
    h = _H.get(key)
    if h is None:
        h = _H[key] = Harness(webhooks, rotation, backtrace)
    p = core.Part()
    orders = set()
    try:
        S.explore(h.run_one, bound, prefixes=[prefix],
                  on_execution=_summarise(p, webhooks, bound, rotation,
                                          backtrace, orders))
    except BaseException:
        p.error = traceback.format_exc()
    p.orders = orders
    return p


def explore_config(webhooks, bound, rotation, backtrace, workers=None):
    """Root and first level in the master, second-level subtrees in a pool
    (many small tasks -> good balance)."""
    h = Harness(webhooks, rotation, backtrace)
    tot = core.Part()
    orders = set()
    on_exec = _summarise(tot, webhooks, bound, rotation, backtrace, orders)
    trace, result = h.run_one([])
    on_exec([], trace, result)
    level1 = alternatives(trace, 0, bound)
    tasks = []
    for pf in level1:
        trace, result = h.run_one(pf)
        on_exec(pf, trace, result)
        for pf2 in alternatives(trace, len(pf), bound):
            tasks.append((webhooks, bound, rotation, backtrace, pf2))
    ctx = mp.get_context('fork')
    with ctx.Pool(workers or min(16, os.cpu_count() or 4)) as pool:
        for p in pool.imap_unordered(_subtree, tasks, 4):
            tot.evaluations += p.evaluations
            tot.nontrivial += p.nontrivial
            tot.mismatches += p.mismatches[:5]
            tot.counters.update(p.counters)
            orders |= p.orders
            tot.error = tot.error or p.error
    tot.counters['distinct_orders'] = len(orders)
    return tot


def free_running(webhooks, iterations=200):
    """Same thread bodies, no scheduler: can only add crash alarms."""
    problems = []
    import threading
    for it in range(iterations):
        b = build(True)
        started = []

        def dispatch(job, default=None):
            kind = OUTCOMES[len(started) % len(OUTCOMES)]
            started.append(kind)
            raise_outcome(kind)
        b.dispatch = dispatch
        n_accepted = []
        stop = []

        def worker():
            while not stop:
                try:
                    b.process_task()
                except BaseException as e:
                    problems.append('free-running worker died: %r' % (e,))
                    return

        def hook(evs):
            for key in evs:
                try:
                    b.put_job(make_job(b, key))
                    n_accepted.append(key)
                except RuntimeError:
                    pass
        wt = threading.Thread(target=worker, daemon=True)
        wt.start()
        ts = [threading.Thread(target=hook, args=(e,)) for e in webhooks]
        for t in ts:
            t.start()
        for t in ts:
            t.join()
        deadline = time.time() + 5
        while b.task_queue.qsize() and time.time() < deadline:
            time.sleep(0.001)
        if b.task_queue.qsize():
            problems.append('free-running: queue not drained')
        stop.append(1)
        # unblock the worker
        b.put_job(make_job(b, ('commit', 'stop')))
        wt.join(2)
    return problems


def outcome_menu():
    """(name, factory, class name) of everything a job is made to raise in
    the sequential pass: exceptions with empty, multi-line, non-ASCII,
    non-string and very long messages, OS errors, exceptions raised from
    other exceptions."""
    from bert_e import exceptions as X

    def template():
        e = X.TemplateException.__new__(X.BuildFailed)
        Exception.__init__(e, 'msg')
        e.msg = 'msg'
        return e

    def chained():
        try:
            raise KeyError('inner')
        except KeyError as inner:
            e = RuntimeError('outer')
            e.__cause__ = inner
            return e
    return [
        ('return', None),
        ('silent', lambda: X.NothingToDo('nothing')),
        ('silent-empty', lambda: X.NothingToDo()),
        ('template', template),
        ('internal', lambda: X.QueuesNotValidated()),
        ('jobfailure', lambda: X.JobFailure('failed on purpose')),
        ('jobfailure-empty', lambda: X.JobFailure()),
        ('runtime', lambda: RuntimeError('boom')),
        ('empty-message', lambda: AssertionError()),
        ('bare-exception', lambda: Exception()),
        ('multi-line', lambda: RuntimeError('line 1\nline 2\n')),
        ('newline-only', lambda: RuntimeError('\n')),
        ('non-ascii', lambda: ValueError('caf\u00e9 \u2603 \ud83d\ude00')),
        ('non-string-args', lambda: ValueError(1, None, b'x')),
        ('none-arg', lambda: Exception(None)),
        ('key-error', lambda: KeyError('k')),
        ('index-error', lambda: IndexError()),
        ('os-error', lambda: OSError(5, 'Input/output error', '/x')),
        ('unicode-error', lambda: UnicodeDecodeError(
            'utf-8', b'\xff', 0, 1, 'invalid start byte')),
        ('long-message', lambda: RuntimeError('x' * 100000)),
        ('percent', lambda: RuntimeError('100% %s %(name)s {0} {x}')),
        ('chained', chained),
        ('stop-iteration', lambda: StopIteration()),
        ('recursion', lambda: RecursionError('maximum recursion depth')),
        ('memory', lambda: MemoryError()),
    ]


def sequential_outcomes(p, part, nparts):
    """Every ordered pair of outcomes of the menu, on one worker, for both
    values of `backtrace` and both kinds of job: process_task must return,
    record the job with its status and clear the marker, twice in a row."""
    core.import_berte()
    from bert_e import exceptions as X
    menu = outcome_menu()
    idx = -1
    for backtrace in (True, False):
        for k1 in (('pr', 1), ('commit', 'c1')):
            for n1, f1 in menu:
                for n2, f2 in menu:
                    idx += 1
                    if idx % nparts != part:
                        continue
                    b = build(backtrace)
                    seq = [(n1, f1), (n2, f2), ('return', None)]
                    pos = []

                    def dispatch(job, default=None):
                        name, f = seq[len(pos)]
                        pos.append(name)
                        if f is not None:
                            raise f()
                    b.dispatch = dispatch
                    keys = [k1, ('pr', 2), ('commit', 'c3')]
                    case = {'outcomes': [n1, n2], 'backtrace': backtrace,
                            'first_job': list(k1)}
                    for key, (name, f) in zip(keys, seq):
                        job = make_job(b, key)
                        b.put_job(job)
                        problems = []
                        try:
                            got = b.process_task()
                        except BaseException as e:
                            problems.append(
                                'process_task raised %r: the worker loop '
                                'dies' % (e,))
                            got = None
                        p.evaluations += 1
                        if name != 'return':
                            p.nontrivial += 1
                        if got is not None:
                            exc = f() if f else None
                            if got is not job or not b.tasks_done or \
                                    b.tasks_done[0] is not job:
                                problems.append('job not recorded first in '
                                                'tasks_done')
                            if not job.done:
                                problems.append('job not marked done')
                            want = type(exc).__name__ if exc is not None \
                                else ''
                            if exc is not None and not backtrace and \
                                    isinstance(exc, (X.SilentException,
                                                     X.TemplateException)):
                                want = ''
                            if job.status != want:
                                problems.append('status %r, expected %r' % (
                                    job.status, want))
                        if 'current job' in b.status:
                            problems.append('current-job marker not cleared')
                        if b.task_queue.unfinished_tasks:
                            problems.append('task_done() not called')
                        for pr in problems:
                            p.mismatch('outcome:%s:%s' % (name, pr[:40]),
                                       'after a job raising %s: %s (%s)' % (
                                           name, pr, case), case)
                        if problems:
                            break


def run(tier, seed, workers=None):
    cr = CheckResult(PROP, 'model_checking')
    tot = core.Part()
    per_cfg = []
    seq = core.run_parts(sequential_outcomes, 8, workers=workers)
    tot.evaluations += seq.evaluations
    tot.nontrivial += seq.nontrivial
    tot.mismatches += seq.mismatches
    tot.error = tot.error or seq.error
    tot.counters['sequential_outcome_jobs'] = seq.evaluations
    from . import C17b
    tot.counters['webhook_status_events_delivered'] = \
        C17b.webhook_events_pass(cr, workers)
    for ci, (webhooks, bound) in enumerate(CONFIGS[tier]):
        for rotation, backtrace in ((0, True), (3, False)) if tier == 'quick'\
                else ((0, True), (2, True), (3, False), (5, False)):
            t = explore_config(webhooks, bound, rotation, backtrace,
                               workers)
            per_cfg.append({'webhooks': webhooks, 'preemption_bound': bound,
                            'outcome_rotation': rotation,
                            'backtrace': backtrace,
                            'executions': t.evaluations,
                            'distinct_accept_start_orders':
                            t.counters.get('distinct_orders', 0),
                            'refused_requests': t.counters.get(
                                'refused_requests', 0)})
            tot.evaluations += t.evaluations
            tot.nontrivial += t.nontrivial
            tot.mismatches += t.mismatches
            for k, v in t.counters.items():
                if k != 'distinct_orders':
                    tot.counters[k] += v
            tot.counters['distinct_orders'] += t.counters['distinct_orders']
            tot.samples += t.samples[:1]
            tot.error = tot.error or t.error
    core.import_berte()
    free = free_running(CONFIGS[tier][0][0], 100 if tier == 'quick' else 400)
    for msg in free:
        tot.mismatch('c13:free-running', msg, {'free_running': True})
    cr = core.fill_result(
        cr, tot,
        rule='real threads (webhook threads calling put_job, worker looping '
             'on process_task) under a baton scheduler; scheduling points = '
             'every source line of put_job / process_task / Job.__eq__ and '
             'every lock or condition operation of the queue; all schedules '
             'with at most <bound> preemptions (iterative context bounding), '
             'outcomes of jobs rotating over {return, silent, template, '
             'internal, JobFailure, RuntimeError}; plus two sequential passes: '
             'every ordered pair of a 25-entry menu of job outcomes '
             '(exceptions with empty, multi-line, non-ASCII, non-string, '
             'very long messages, OS and unicode errors, chained) x '
             'backtrace x job kind on one worker, and every status webhook '
             'event through the real handlers in every cache state within 3 '
             'steps (must yield a CommitJob unless it says "build started"); '
             'non-trivial = executions with at least one preemption',
        assumptions=['CPython GIL: switches inside C-level operations other '
                     'than the __eq__ callbacks do not exist',
                     'dispatch replaced by a recorder with a scripted '
                     'outcome'],
        extra={'schedules': tot.evaluations, 'configurations': per_cfg,
               'states': tot.evaluations, 'transitions': tot.evaluations,
               'traces_validated_against_impl': tot.evaluations,
               'free_running_iterations': 100 if tier == 'quick' else 400})
    if tot.counters.get('distinct_orders', 0) < 4:
        cr.harness_errors.append('vacuous: fewer than 4 distinct '
                                 'accept/start orders were observed')
    return cr


def replay(data):
    if 'webhook_case' in data:
        from . import C17b
        return C17b.replay({'case': data['webhook_case'],
                            'judge_dropped': True})
    case = data['case']
    if case.get('free_running'):
        core.import_berte()
        probs = free_running(CONFIGS['quick'][0][0], 200)
        return (not probs), '\n'.join(probs)
    h = Harness([[tuple(k) for k in evs] for evs in case['webhooks']],
                case['rotation'], case['backtrace'])
    out = []
    for _ in range(2):     # the same schedule must give the same result
        trace, result = h.run_one(case['schedule'])
        out.append(result['problems'])
    if out[0] != out[1]:
        return False, 'NONDETERMINISM: %s vs %s' % (out[0], out[1])
    return (not out[0]), 'schedule %s -> %s' % (case['schedule'], out[0])
