"""C04 - the review gate lets a pull request through exactly when approvals
suffice.  ENUM on the real check_approvals(job) with a real PullRequestJob on
stub bert_e / pull request; reference written from the statement."""
import itertools
from types import SimpleNamespace

from ..enum import core
from ..runner import CheckResult

PROP = 'C04'
USERS = ['alice', 'bob', 'carol', 'lead', 'robot']   # alice is the author
AUTHOR, ROBOT, LEAD = 'alice', 'robot', 'lead'
ABSENT, PART, APPROVED, CHANGES, BOTH = 0, 1, 2, 3, 4
# BOTH: the user is listed among the approvals and among the change requests
# (the statement quantifies over independent subsets; the mock host and
# Bitbucket keep an approval when changes are requested afterwards)
SRC_NONE, SRC_COMMENT, SRC_AUTHOR, SRC_CMDLINE = 0, 1, 2, 3
BYPASSES = ['bypass_author_approval', 'bypass_peer_approval',
            'bypass_leader_approval']


class StubPR:
    id = 1
    title = 't'

    def __init__(self):
        self.author = AUTHOR
        self.author_display_name = AUTHOR
        self.states = {}

    def get_participants(self):
        return [u for u in USERS if self.states.get(u, 0) != ABSENT]

    def get_approvals(self):
        return [u for u in USERS if self.states.get(u, 0) in (APPROVED, BOTH)]

    def get_change_requests(self):
        return [u for u in USERS if self.states.get(u, 0) in (CHANGES, BOTH)]


def reference(peers, leaders_req, need_author, leaders, states, byp, approve,
              unanimity):
    """True = the gate lets the pull request through (statement of C04)."""
    on_host = {u for u in USERS if states[u] in (APPROVED, BOTH)}
    approvers = set(on_host)
    if approve:
        approvers.add(AUTHOR)
    participants = {u for u in USERS if states[u] != ABSENT}
    change_req = {u for u in USERS if states[u] in (CHANGES, BOTH)}
    author_ok = (AUTHOR in approvers) or (not need_author) or byp[0]
    peers_ok = byp[1] or len(approvers - {AUTHOR}) >= peers
    nlead = len(approvers & leaders)
    if AUTHOR in leaders and AUTHOR not in approvers:
        nlead += 1
    leaders_ok = byp[2] or nlead >= leaders_req
    unanimous_ok = (not unanimity) or \
        (participants - {ROBOT} <= approvers)
    # every requirement waived: nothing on the host needs to be looked at
    all_waived = ((not need_author) or byp[0] or approve) and \
        (byp[1] or peers == 0) and (byp[2] or leaders_req == 0) and \
        not unanimity
    changes_ok = all_waived or not change_req
    return author_ok and peers_ok and leaders_ok and unanimous_ok and \
        changes_ok


def configs(tier):
    max_peers, max_leaders = (2, 2) if tier == 'quick' else (3, 2)
    out = []
    for peers in range(max_peers + 1):
        for lreq in range(min(peers, max_leaders) + 1):
            for need_author in (True, False):
                for leaders in ((), (LEAD,), (LEAD, AUTHOR)):
                    if lreq > len(leaders):
                        continue     # rejected by the settings schema
                    out.append((peers, lreq, need_author, leaders))
    return out


def run_part(p, part, nparts, tier):
    core.import_berte()
    import bert_e.exceptions as exc
    from bert_e.workflow import gitwaterflow as gwf
    from bert_e.job import PullRequestJob
    from bert_e.reactor import Reactor
    from bert_e.lib.settings_dict import SettingsDict
    from bert_e.lib.template_loader import render as real_render
    exc.render = lambda template, **kw: 'stub'
    cfgs = configs(tier)
    # quick: the robot is never both approver and change requester
    user_states = [st for st in itertools.product(range(5),
                                                  repeat=len(USERS))
                   if tier != 'quick' or st[USERS.index(ROBOT)] != BOTH]
    # option part: source of each bypass (4^3) x approve x unanimity
    optsets = list(itertools.product(range(4), range(4), range(4),
                                     (False, True), (False, True)))
    idx = -1
    for (peers, lreq, need_author, leaders) in cfgs:
        for opt in optsets:
            idx += 1
            if idx % nparts != part:
                continue
            srcs, approve, unanimity = opt[:3], opt[3], opt[4]
            cmdline = {b: True for b, s in zip(BYPASSES, srcs)
                       if s == SRC_CMDLINE}
            gwf.setup(cmdline)
            author_opts = core.author_options(
                AUTHOR, [b for b, s in zip(BYPASSES, srcs)
                         if s == SRC_AUTHOR])
            base = SettingsDict({
                'required_peer_approvals': peers,
                'required_leader_approvals': lreq,
                'need_author_approval': need_author,
                'project_leaders': list(leaders),
                'pr_author_options': author_opts, 'robot': ROBOT,
                'pull_request_base_url': 'http://h/{pr_id}',
            })
            pr = StubPR()
            bert_e = SimpleNamespace(settings=base, project_repo=None,
                                     git_repo=None)
            job = PullRequestJob(bert_e=bert_e, pull_request=pr,
                                 project_repo=object(), git_repo=object())
            Reactor().init_settings(job)
            for b, s in zip(BYPASSES, srcs):
                if s == SRC_COMMENT:
                    job.settings[b] = True
            if approve:
                job.settings['approve'] = True
            if unanimity:
                job.settings['unanimity'] = True
            byp = tuple(s != SRC_NONE for s in srcs)
            lset = set(leaders)
            for n, st in enumerate(user_states):
                states = dict(zip(USERS, st))
                pr.states = states
                expected = reference(peers, lreq, need_author, lset, states,
                                     byp, approve, unanimity)
                render_real = (n % 251 == part % 251)
                if render_real:
                    exc.render = real_render
                try:
                    gwf.check_approvals(job)
                    got = True
                    err = None
                except exc.ApprovalRequired as e:
                    got = False
                    err = e
                finally:
                    if render_real:
                        exc.render = lambda template, **kw: 'stub'
                p.evaluations += 1
                if any(v in (APPROVED, CHANGES, BOTH) for v in st) and \
                        (peers or lreq or need_author or unanimity):
                    p.nontrivial += 1
                case = {'peers': peers, 'leaders_required': lreq,
                        'need_author_approval': need_author,
                        'project_leaders': list(leaders),
                        'bypass_sources(author,peer,leader)': list(srcs),
                        'approve': approve, 'unanimity': unanimity,
                        'user_states': states}
                if got != expected:
                    kind = classify(case, got, expected)
                    p.mismatch(kind, 'check_approvals %s but the statement '
                               'says %s: %s' % (
                                   'passes' if got else 'blocks',
                                   'pass' if expected else 'block', case),
                               case)
                elif err is not None and render_real:
                    p.counters['rendered'] += 1
                    msg = str(err)
                    for u in USERS:
                        if states[u] in (CHANGES, BOTH) and ('@' + u) not in msg:
                            p.mismatch('message-omits-change-requester',
                                       'ApprovalRequired message does not '
                                       'name change requester %s' % u, case)
                if len(p.samples) < 1 and n == 77:
                    p.samples.append({'case': case, 'passes': got})
    gwf.setup({})


def classify(case, got, expected):
    """Fingerprint of a disagreement: the smallest description that pins the
    failing class of inputs (used for known findings)."""
    st = case['user_states']
    if (not got and expected and case['unanimity'] and case['approve'] and
            st[AUTHOR] == ABSENT):
        return 'unanimity-with-approve-option-author-not-participant'
    return 'approvals:%s:%s' % ('pass' if got else 'block',
                                sorted(case.items(), key=str))


def run(tier, seed, workers=None):
    cr = CheckResult(PROP, 'exploration')
    tot = core.run_parts(run_part, 64, extra=(tier,), workers=workers)
    return core.fill_result(
        cr, tot,
        rule='every (required peers, required leaders, need_author, leader '
             'set) accepted by the settings schema x source of each bypass '
             '{none, comment, per-author, command line}^3 x approve x '
             'unanimity x review state {absent, participant, approved, '
             'changes requested, approved and changes requested}^5 users '
             '(quick: the robot never in the last state); non-trivial = some requirement is '
             'on and somebody approved or requested changes',
        assumptions=['job.settings set as Reactor.handle_options would for '
                     'comment-sourced options (parsing itself is C07)',
                     'approvers are participants, as on every supported '
                     'host; the author may be absent from participants'])


def replay(data):
    import json
    core.import_berte()
    case = data['case']
    import bert_e.exceptions as exc
    from bert_e.workflow import gitwaterflow as gwf
    from bert_e.job import PullRequestJob
    from bert_e.reactor import Reactor
    from bert_e.lib.settings_dict import SettingsDict
    srcs = case['bypass_sources(author,peer,leader)']
    gwf.setup({b: True for b, s in zip(BYPASSES, srcs) if s == SRC_CMDLINE})
    base = SettingsDict({
        'required_peer_approvals': case['peers'],
        'required_leader_approvals': case['leaders_required'],
        'need_author_approval': case['need_author_approval'],
        'project_leaders': case['project_leaders'],
        'pr_author_options': core.author_options(
            AUTHOR, [b for b, s in zip(BYPASSES, srcs) if s == SRC_AUTHOR]),
        'robot': ROBOT, 'pull_request_base_url': 'http://h/{pr_id}'})
    pr = StubPR()
    pr.states = case['user_states']
    job = PullRequestJob(bert_e=SimpleNamespace(settings=base,
                                                project_repo=None,
                                                git_repo=None),
                         pull_request=pr, project_repo=object(),
                         git_repo=object())
    Reactor().init_settings(job)
    for b, s in zip(BYPASSES, srcs):
        if s == SRC_COMMENT:
            job.settings[b] = True
    job.settings['approve'] = case['approve']
    job.settings['unanimity'] = case['unanimity']
    try:
        gwf.check_approvals(job)
        got = True
    except exc.ApprovalRequired:
        got = False
    expected = reference(case['peers'], case['leaders_required'],
                         case['need_author_approval'],
                         set(case['project_leaders']), case['user_states'],
                         tuple(s != SRC_NONE for s in srcs), case['approve'],
                         case['unanimity'])
    gwf.setup({})
    return got == expected, 'case: %s\ncheck_approvals passes=%s, ' \
        'statement says passes=%s' % (json.dumps(case), got, expected)
