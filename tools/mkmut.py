#!/usr/bin/env python3
"""mkmut.py <out.patch> <file relative to repo> <old> <new> : make a one-replacement patch against /repo HEAD"""
import subprocess, sys, os, tempfile, shutil
out, rel, old, new = sys.argv[1:5]
src = subprocess.check_output(['git', '-C', '/repo', 'show', 'HEAD:' + rel]).decode()
assert src.count(old) == 1, 'old text occurs %d times' % src.count(old)
d = tempfile.mkdtemp()
a = os.path.join(d, 'a', rel); b = os.path.join(d, 'b', rel)
os.makedirs(os.path.dirname(a)); os.makedirs(os.path.dirname(b))
open(a, 'w').write(src); open(b, 'w').write(src.replace(old, new))
p = subprocess.run(['diff', '-u', 'a/' + rel, 'b/' + rel], cwd=d, stdout=subprocess.PIPE).stdout.decode()
open(out, 'w').write(p); shutil.rmtree(d); print(p)
