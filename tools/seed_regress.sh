#!/bin/bash
# usage: tools/seed_regress.sh [ids...]  -- run the quick check of every seeded change in seeded/ against a scratch
# worktree of /repo with the seed applied; expect exit 1 each time.  Prints one line per seed.  Location independent
# (works from a snapshot of /verif).
here=$(cd "$(dirname "$0")/.." && pwd)
cd "$here"
ids=${@:-$(ls seeded)}
for id in $ids; do
  if grep -q '"obsolete_since"' "seeded/$id/meta.json" 2>/dev/null; then
    echo "SEED $id obsolete (see meta.json)"; continue
  fi
  wt=/tmp/vfr.$id.$$
  git -C /repo worktree add -q --detach "$wt" HEAD || continue
  if git -C "$wt" apply "$here/seeded/$id/patch.diff"; then
    prop=${id%%-*}
    VERIF_REPO="$wt" ./check "$prop" --tier quick >/tmp/vfr.$id.out 2>/dev/null </dev/null; rc=$?
    echo "SEED $id quick_exit=$rc $(grep -c VIOLATION /tmp/vfr.$id.out) violation lines"
  else
    echo "SEED $id patch-does-not-apply"
  fi
  git -C /repo worktree remove --force "$wt"
  rm -f "$here"/replays/${id%%-*}-*.json /tmp/vfr.$id.out
done
