#!/usr/bin/env python3
"""Regenerate MANIFEST.json from the table below (kept next to the code so the
manifest never drifts from what exists)."""
import json, os
HERE = os.path.dirname(os.path.dirname(os.path.abspath(__file__)))
CHECKS = {}
def add(pid, engine, category, text, note, technique, design):
    CHECKS[pid] = dict(engine=engine, category=category, text=text, note=note, technique=technique, design=design)

exec(open(os.path.join(HERE, 'tools', 'manifest_table.py')).read())

props = [json.loads(l)['id'] for l in open(os.path.join(HERE, 'properties.jsonl'))]
checks, na = [], []
for pid in props:
    if pid in CHECKS and os.path.exists(os.path.join(HERE, 'vf', 'props', pid + '.py')):
        c = CHECKS[pid]
        checks.append({
            'property_id': pid,
            'quick_cmd': './check %s --tier quick' % pid,
            'thorough_cmd': './check %s --tier thorough' % pid,
            'evidence_file': 'evidence/%s.json' % pid,
            'replay_cmd_template': './check %s --replay {path}' % pid,
            'engine': c['engine'],
            'level_claimed': {'category': c['category'], 'text': c['text'], 'design_ref': c['design']},
            'level_note': c['note'],
            'technique': c['technique'],
        })
    else:
        na.append({'property_id': pid, 'reason': NOT_BUILT.get(pid, 'check not built yet in this session (design in DESIGN.md section 5); not claimed until its check exists')})
m = {
 'version': 1,
 'setup_cmd': '/venv/bin/python -m compileall -q vf >/dev/null && git --version >/dev/null && test -d /dev/shm && test -x ./check',
 'hooks': {'guard': 'BERTE_VERIF', 'enable': 'no source hooks: the harness process monkey-patches bert_e.lib.git.cmd, bert_e.lib.retry.sleep and the mock host from outside; ./check exports BERTE_VERIF=1 for symmetry only',
           'baseline_off_cmd': 'cd /repo && /venv/bin/python -m pytest -ra -q -p no:cacheprovider --timeout=900 --continue-on-collection-errors',
           'source_commits': [], 'add_only': True},
 'engines': ENGINES,
 'checks': checks,
 'not_applicable': na,
 'notes': 'All checks are exhaustive bounded explorations executed on the code in /repo (VERIF_REPO overrides). See DESIGN.md.',
}
json.dump(m, open(os.path.join(HERE, 'MANIFEST.json'), 'w'), indent=1)
print('checks:', [c['property_id'] for c in checks]); print('n/a:', [n['property_id'] for n in na])
