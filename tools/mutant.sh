#!/bin/bash
# usage: tools/mutant.sh <patch> <check id> [tier]   -- run a check against a scratch copy of /repo with <patch> applied
set -u
patch=$(realpath "$1"); id=$2; tier=${3:-quick}
wt=/tmp/vfm.$$
git -C /repo worktree add -q --detach "$wt" HEAD || exit 3
trap 'git -C /repo worktree remove --force "$wt"' EXIT
git -C "$wt" apply "$patch" || { echo "patch does not apply"; exit 3; }
cd /verif && VERIF_REPO="$wt" ./check "$id" --tier "$tier" 2>/dev/null | grep -E "VIOLATION|HARNESS|KNOWN|quick:|thorough:|^  " | head -${MUT_LINES:-12}
echo "exit=${PIPESTATUS[0]}"
