#!/bin/bash
# usage: tools/seed_eval.sh <ID> [src dir]  -- validate a seeded change (patch.diff + demo.py) and run the check against it
# Steps: (1) patch applies to /repo HEAD in a scratch worktree; (2) pinned suite still has 76 passes;
# (3) demo fails with the change and passes on /repo; (4) ./check <ID> quick (and thorough if quick is silent) must exit 1.
set -u
id=$1; src=${2:-/tmp/seed/$id/out}
wt=/tmp/vfs.$id.$$
git -C /repo worktree add -q --detach "$wt" HEAD || exit 3
trap 'git -C /repo worktree remove --force "$wt" 2>/dev/null' EXIT
git -C "$wt" apply "$src/patch.diff" || { echo "RESULT $id patch-does-not-apply"; exit 3; }
echo "--- pinned suite with the change"
pin=$(cd "$wt" && /venv/bin/python -m pytest -q -p no:cacheprovider --timeout=900 --continue-on-collection-errors 2>&1 | tail -1)
echo "$pin"
git -C "$wt" checkout -- coverage.xml 2>/dev/null
echo "--- demo with the change (must fail)"
(cd /tmp && timeout 900 /venv/bin/python "$src/demo.py" "$wt" >/tmp/vfs.$id.demo1 2>&1); d1=$?
tail -3 /tmp/vfs.$id.demo1
echo "exit=$d1"
echo "--- demo on /repo (must pass)"
(cd /tmp && timeout 900 /venv/bin/python "$src/demo.py" /repo >/tmp/vfs.$id.demo2 2>&1); d2=$?
tail -2 /tmp/vfs.$id.demo2
echo "exit=$d2"
echo "--- check $id quick against the change"
cd /verif
VERIF_REPO="$wt" ./check "$id" --tier quick 2>/dev/null | grep -E "VIOLATION|HARNESS|KNOWN|quick:|^  " | cut -c1-300 | head -8
q=${PIPESTATUS[0]}
echo "check quick exit=$q"
t=skipped
if [ "$q" = "0" ] && [ "${SEED_THOROUGH:-1}" = "1" ]; then
  echo "--- check $id thorough against the change"
  VERIF_REPO="$wt" ./check "$id" --tier thorough 2>/dev/null | grep -E "VIOLATION|HARNESS|KNOWN|thorough:|^  " | cut -c1-300 | head -8
  t=${PIPESTATUS[0]}
  echo "check thorough exit=$t"
fi
rm -f /verif/replays/$id-*.json
echo "RESULT $id pinned='$pin' demo_with=$d1 demo_clean=$d2 quick=$q thorough=$t"
