NOT_BUILT = {}
ENGINES = [
 {'name': 'SYS', 'path': 'vf/sysmc', 'serves_properties': ['C01','C02','C03','C06','C08','C10','C12','C15','C16','C19','C20'],
  'kind_free_text': 'explicit-state BFS over real Bert-E + bert_e/git_host/mock.py + real git; snapshots on /dev/shm; monitors on every transition; fault/deviation layer'},
 {'name': 'ENUM', 'path': 'vf/enum', 'serves_properties': ['C04','C05','C06','C07','C09','C11','C14','C16','C17','C18'],
  'kind_free_text': 'exhaustive bounded input enumeration of real functions against independent reference oracles'},
 {'name': 'THR', 'path': 'vf/thr', 'serves_properties': ['C13'],
  'kind_free_text': 'stateless preemption-bounded exploration of real threads (sys.settrace + baton)'},
]
add('C01', 'SYS', 'model_checking',
    'Every event history (evaluations, CI reports, pushes, admin jobs) of two pull requests over the listed layouts/settings is executed on the real code up to closure or the stated depth; the inclusion chain is checked on the remote after every transition, inductively.',
    'Trusts git itself and the in-package mock git host; 2 pull requests, bounded pushes; bounds per exploration are in the evidence.',
    'explicit-state BFS of the real implementation with invariant monitor', 'DESIGN.md section 5 C01')

add('C04', 'ENUM', 'exploration',
    'check_approvals is run on every combination of review settings accepted by the schema, every source of every bypass, approve/unanimity and every review state of 5 users (6.8M cases quick, all listed in the quantifier thorough) and compared with a reference written from the statement.',
    'Stub pull request/job objects provide exactly the attributes the function reads; comment-sourced options are set as Reactor.handle_options sets them (parsing is C07).',
    'exhaustive input enumeration vs reference oracle', 'DESIGN.md section 5 C04')

add('C18', 'ENUM', 'exploration',
    'Every name of a bounded grammar (prefixes x version shapes x labels incl. nested robot names) is classified by the real branch_factory and predicates and compared, attribute by attribute, with a split-based reference parser; every derived w/, q/, q/w/ name is built by the real constructors and parsed back.',
    'ASCII names without newline; FakeRepo stands for git (no command is needed to classify a name).',
    'exhaustive input enumeration vs reference parser + round trip', 'DESIGN.md section 5 C18')

add('C07', 'ENUM', 'exploration',
    'handle_comments (privilege computation + both comment syntaxes + option/command phases) is run on every comment list of length <= 3 from a grammar of author classes x addressee forms x keyword lists x separators and compared with an oracle that works on the generator tuple; the no-escalation clause is asserted separately on every case.',
    'reset/force_reset handlers replaced by recorders; templates stubbed; outcomes the statement leaves open (tight separators, commands after unusual punctuation) are counted in the evidence, not judged.',
    'exhaustive input enumeration vs reference oracle', 'DESIGN.md section 5 C07')

add('C09', 'ENUM', 'exploration',
    'BranchCascade (build/add_branch/update_versions/finalize/validate) is run on every subset of a 15-branch universe x tag sets x destination, and on every discovery order, and compared with a reference computed from the statement (targets, ignored, fix versions, rejection of ill-formed cascades).',
    'FakeRepo returns git branch / git tag text and answers ancestry positively (inclusion itself is C01); cases the statement leaves open are counted in the evidence.',
    'exhaustive input enumeration vs reference oracle', 'DESIGN.md section 5 C09')

add('C11', 'ENUM', 'exploration',
    'jira_checks is run on every combination of source name, target list, ticketless flags, issue (absent / type x every subset of a fix-version universe) and settings, and compared with the decision ladder of the statement; a repository stub that raises on any command proves the repository is untouched.',
    'bert_e.lib.jira.JiraIssue replaced by a table-driven fake; expected versions given (C09 checks their computation).',
    'exhaustive input enumeration vs reference oracle', 'DESIGN.md section 5 C11')

add('C17', 'ENUM+BFS', 'model_checking',
    '(a) AggregatedWorkflowRuns.state on every ordered list of workflow runs of the bounded alphabet vs the soundness clause of the statement; (b) explicit-state BFS over the real get_build_status (GitHub and Bitbucket), the real webhook handlers and the real LRUCache with a scripted host: state = (host table, cache contents in LRU order, verdicts seen green); oracle: a verdict seen SUCCESSFUL stays SUCCESSFUL while it is in the cache, any other poll answers what the host currently reports; the LRU itself is compared with a list-based reference on every sequence of <= 6 operations.',
    '(a) run dictionaries shaped like the pinned unit tests; (b) every transition rebuilds the real objects from the canonical state and calls the real code (no separate model to drift); 2 commits x 2 keys x 3 states, cache sizes 1 and 2, depth 4 (quick) / 5.',
    'exhaustive input enumeration + explicit-state BFS over the real implementation', 'DESIGN.md section 5 C17')

add('C03', 'SYS', 'model_checking',
    'Histories of two pull requests in queue and skip-queue mode, with CI verdicts reported per branch / all at once / on superseded commits in any order, are executed on the real code; at every movement of a destination branch the new tip is looked up in the host build-status table (force merge and bypassed direct merges exempted as the statement says).',
    'mock git host; pinned commit dates make a rebuilt queue commit identical to its predecessor (it inherits the reported status); bounds per exploration in the evidence.',
    'explicit-state BFS of the real implementation with transition monitor', 'DESIGN.md section 5 C03')
add('C06', 'ENUM+SYS', 'model_checking',
    '(a) check_build_status on every status vector over 1-4 integration branches x bypass source x build key vs the statement; (b) BFS over histories where integration tips change between report and evaluation, monitor: a pull request that entered the queue or was merged directly has SUCCESSFUL on every integration commit, and waiting jobs do not comment.',
    '(a) stub job/host; (b) mock git host, two pull requests, bounded depth (in the evidence).',
    'exhaustive input enumeration + explicit-state BFS with transition monitor', 'DESIGN.md section 5 C06')

add('C02', 'SYS', 'fault_enumeration',
    'For every job transition of the explored FLOW graphs that mutates the remote: one re-execution per crash boundary between remote-mutating operations (git push, comment, PR creation, decline) and one per single ref rejected by a real update hook, plus environment answers: each command that talks to the remote failing once, each mutating host API call answering 503 once, every octopus merge of the job failing; at the interrupted state all-or-none of every user commit over its targets and the C01 chain are checked on the remote; then the event is re-delivered to a fresh Bert-E (documented queue reset if asked) and destination trees are compared with the uninterrupted run.',
    'crash = crash-stop between operations (a single ref update is atomic in git); delivery is at-least-once, so both runs are settled by re-delivering the event until destinations stop moving; mock git host.',
    'exhaustive crash-point / rejected-ref / single-fault enumeration on the real implementation', 'DESIGN.md section 5 C02')

add('C08', 'SYS', 'model_checking',
    'BFS over FLOW histories (decline, reset, queue admin jobs, delete_branch) with a monitor on every job: destination updates are fast-forwards, deleted only by delete_branch with an archive tag on the tip, no ref outside w/ q/ tmp/ changes, no forced push, former destination tips stay reachable; plus, for every push of every job, one re-execution per third-party action (new branch, push to a source branch, force-push of a source branch) placed immediately before that push, plus two environment faults per pushing job (stale clone cache with a failing refresh; each command that talks to the remote failing once). Histories include merge conflicts resolved by hand and integration branches deleted by hand.',
    'the third party acts directly on the bare remote, one action per job, at push boundaries (as the quantifier says); mock git host.',
    'explicit-state BFS + exhaustive placement of one concurrent action per push', 'DESIGN.md section 5 C08')
add('C10', 'SYS', 'model_checking',
    'BFS over histories with command comments, reviews, CI verdicts and declines; on every job transition the same evaluation is delivered four times on the long-lived instance: the fourth must change nothing, no robot message may appear twice in a row, command executions may not exceed command comments; independence from earlier jobs by replaying explored paths in fresh processes (keys and statuses identical).',
    'mock git host; one or two pull requests; jobs enqueued by an evaluation are processed right after it.',
    'explicit-state BFS + repeated-delivery deviation on every transition', 'DESIGN.md section 5 C10')

add('C16', 'SYS+ENUM', 'fault_enumeration',
    '(a) for every shell command index of every kind of job (scripted histories on a credentialed clone URL): the command fails and hangs while printing the URL; all channels (formatted log records with tracebacks at DEBUG and INFO, fd 1/2, job status/details/json, /api/jobs payload, status page, comments) are searched for the password in raw and quoted forms. (a2) the masking of simplecmd.cmd itself over 34 boundary passwords x {success, exit 128, time-out} x {DEBUG, INFO}. (b) GitHub password and App flows through a scripted HTTP session with one misbehaving endpoint at a time; log, stdout, stderr and exception text searched for password, header values, JWT and installation token.',
    'fault injection keeps the original command line (behaviour comes from an environment variable) so a URL is on the command line only if the real command has it; mock git host for (a), scripted requests.Session.request for (b).',
    'exhaustive single-fault enumeration on the real implementation', 'DESIGN.md section 5 C16')

add('C19', 'SYS', 'model_checking',
    'BFS over histories where PR events, child-PR events and commit events on every source/integration/queue tip arrive in every order and multiplicity, with pushes, decline and merge; after every transition: at most one open integration PR per (branch, target), named and titled after its parent, branches only for targets beyond the first, exact cleanup on decline and merge; and the redirect differential: the event on a child PR or integration commit reaches the same state as the event on the parent.',
    'mock git host (integration PRs whose branch vanished stay OPEN there); bounds in the evidence.',
    'explicit-state BFS with state monitor + differential deviation', 'DESIGN.md section 5 C19')

add('C15', 'SYS', 'model_checking',
    'After integration branches exist for two pull requests: every sequence (<=2 quick, <=3 thorough) of source / destination / manual-commit operations followed by reset or force_reset, the evaluation executing it and the next one, on the real code with a virtual commit clock; oracle from harness ground truth (which commits are manual): reset refuses and changes nothing when manual work exists; either command deletes exactly the integration branches and declines exactly the integration PRs of that pull request; the next evaluation rebuilds them.',
    'manual work = commits the harness made on top of an integration branch; layouts D3, E3 (two development branches on one commit), S3, queue and no-queue; one known finding (fast-forwarded integration branch) is listed in known_findings.json.',
    'explicit-state search over operation sequences with ground-truth oracle', 'DESIGN.md section 5 C15')

add('C12', 'SYS', 'model_checking',
    'BFS over {evaluate, CI green, queue evaluation, add hold, delete hold comment, merge the dependency, decline} for each hold (wait; after_pull_request on open / declined / merged / unknown / non-numeric id; two dependencies) on an otherwise mergeable pull request, queue and no-queue: while a hold is in place (or the pull request is finished) no integration branch, queue entry, integration PR or merge of it may appear, and once lifted the next evaluation must proceed; plus one pull request per (source, destination) pair of a 10 x 10 name matrix: pairs Bert-E does not handle get no comment, no branch, no pull request.',
    'mock git host; holds placed after the pull request entered the queue do not stop the queue merge: listed as known findings (upstream documents it as intended).',
    'explicit-state BFS with transition monitor', 'DESIGN.md section 5 C12')

add('C20', 'SYS', 'model_checking',
    'BFS over queue-flow states (0, 1, 2 queued pull requests incl. a hotfix queue, and after a queue merge) crossed, in every state, with create_branch (names older / between / newer / existing / archived / stabilization with and without its development branch / hotfix; branch_from absent, a branch, commits inside and outside the latest development branch), delete_branch for every destination and a missing one, rebuild_queues, delete_queues; oracle: an independent cascade checker + C01 on success, the refusal conditions of the statement, archive tags, untouched remote on refusal, only q/* removed and exact re-submission by rebuild.',
    'mock git host; layouts D3, S3, H3; build status bypassed so that depth is spent on queue states.',
    'explicit-state BFS with transition monitor', 'DESIGN.md section 5 C20')
add('C13', 'THR', 'model_checking',
    'Real threads run the real put_job / process_task / Job.__eq__ under a baton scheduler with cooperative queue locks; every schedule with at most 2 (thorough 3) preemptions at source-line granularity is executed; oracle: every accepted request is followed by an evaluation of that key that starts after the request arrived; after every job it is finished, recorded with the right status and the current-job marker is cleared; the worker is alive and waiting at quiescence; no deadlock. A free-running pass of the same bodies can only add crash alarms. Two sequential passes complete it: every ordered pair of a 25-entry menu of job outcomes on one worker, and every status webhook event through the real handlers in every cache state within 3 steps (an accepted event must yield a job).',
    'CPython GIL semantics; dispatch replaced by a recorder with a scripted outcome; states/transitions in the evidence are schedules (stateless search).',
    'stateless preemption-bounded exploration of real threads (CHESS style)', 'DESIGN.md section 5 C13')

add('C14', 'ENUM', 'exploration',
    'The full matrix: every API rule registered in app.url_map x 5 HTTP methods x session {none, user, admin} x valid / invalid parameters; every management form x session x data x CSRF token with the form-to-API call looped back into the application; both webhook routes x credentials x repository identity x handled / unhandled events on a Bitbucket- and a GitHub-configured instance; oracle table from the statement (job iff authorised and valid, error status and empty queue otherwise, job class / user / settings exactly the validated parameters).',
    'sessions set as the pinned test_server does; GitHub client stubbed for the two events that fetch data.',
    'exhaustive matrix enumeration vs oracle table', 'DESIGN.md section 5 C14')

add('C05', 'ENUM', 'model_checking',
    'For every configuration (cascade x destination of each queued pull request, in order of entry) the queue is built on a real repository by real Bert-E and its commit graph extracted; the real QueueCollection (build, validate, mergeable_prs, mergeable_queues) then runs over a FakeRepo answering git from that graph for every assignment of build statuses to every queue commit (and force merge), and is compared with the longest-all-green-prefix reference of the statement; sampled assignments and every disagreement are replayed through handle_merge_queues on the real repository (conformance, and judged against the statement there too). Configurations are also built after a prehistory that leaves empty queue branches behind.',
    'the model of git is the extracted graph + rev-parse / is-ancestor / branch listing re-implemented over it, validated by the replays (traces_validated_against_impl).',
    'exhaustive enumeration over an extracted model + conformance replay on the implementation', 'DESIGN.md section 5 C05')
