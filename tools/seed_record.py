#!/usr/bin/env python3
"""seed_record.py <ID> : copy an evaluated seeded change into /verif/seeded/<ID>/ with meta.json
(reads /tmp/seed/<ID>/out/{patch.diff,demo.py,NOTES.md}, /tmp/seedlog/<ID>.txt and tools/seed_notes.json)"""
import json, os, re, shutil, sys
pid = sys.argv[1]
rnd = sys.argv[2] if len(sys.argv) > 2 else ''
src = '/tmp/seed%s/%s/out' % (rnd, pid)
dst = '/verif/seeded/%s%s' % (pid, '-' + rnd if rnd else '')
os.makedirs(dst, exist_ok=True)
for f in ('patch.diff', 'demo.py', 'NOTES.md'):
    if os.path.exists(os.path.join(src, f)):
        shutil.copy(os.path.join(src, f), os.path.join(dst, f))
log = open('/tmp/seedlog%s/%s.txt' % (rnd, pid)).read()
m = re.search(r"RESULT (\S+) pinned='([^']*)' demo_with=(\d+) demo_clean=(\d+) quick=(\S+) thorough=(\S+)", log)
notes = json.load(open('/verif/tools/seed_notes%s.json' % rnd)).get(pid, {})
viol = [l.strip() for l in log.splitlines() if l.startswith('  ') and 'VIOLATION' not in l][:2]
meta = {
    'property': pid,
    'origin': 'written by an independent sub-agent that was given only the property text and a scratch worktree of /repo (HEAD at the time: a26d963 for rounds 1-3, 07a1cdf for rounds 4-6)',
    'what_the_change_is': notes.get('what'),
    'needs_to_manifest': notes.get('needs'),
    'confirmed_by_me_in_a_scratch_worktree': {
        'patch_applies_to': '/repo HEAD (git worktree add --detach; git apply patch.diff)',
        'pinned_suite_with_change': m.group(2) if m else None,
        'demo_with_change_exit': int(m.group(3)) if m else None,
        'demo_on_clean_repo_exit': int(m.group(4)) if m else None,
        'commands': ['tools/seed_eval.sh %s' % pid,
                     'cd <worktree> && /venv/bin/python -m pytest -q -p no:cacheprovider --timeout=900 --continue-on-collection-errors',
                     '/venv/bin/python demo.py <worktree>   (must fail)', '/venv/bin/python demo.py /repo   (must pass)',
                     'VERIF_REPO=<worktree> ./check %s --tier quick' % pid],
    },
    'check_result': {'quick_exit': m.group(5) if m else None, 'thorough_exit': m.group(6) if m else None,
                     'first_violation_lines': viol},
    'caught_by': notes.get('caught_by'),
    'caught_before_strengthening': notes.get('before'),
    'strengthening': notes.get('strengthening'),
}
json.dump(meta, open(os.path.join(dst, 'meta.json'), 'w'), indent=1)
print(pid, meta['check_result'], meta['caught_before_strengthening'])
