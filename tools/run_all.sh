#!/bin/bash
# usage: tools/run_all.sh [quick|thorough] [ids...]   -- run checks sequentially, print a summary table
tier=${1:-quick}; shift; cd "$(dirname "$0")/.."
ids=${@:-$(python3 -c "import json;print(' '.join(c['property_id'] for c in json.load(open('MANIFEST.json'))['checks']))")}
for id in $ids; do
  s=$(date +%s)
  ./check $id --tier $tier >/tmp/run_all.$tier.$id.out 2>/dev/null </dev/null; rc=$?
  e=$(date +%s)
  echo "== $id rc=$rc $((e-s))s"; grep -E "VIOLATION|HARNESS|KNOWN|$tier:" /tmp/run_all.$tier.$id.out | cut -c1-220 | tail -4
done
